#!/bin/sh
# Offline install of the harness dependencies into /verif/.deps (never touches /venv or /repo).
set -e
HERE="$(cd "$(dirname "$0")" && pwd)"
DEPS="$HERE/.deps"
PY=/venv/bin/python
if PYTHONPATH="$DEPS" $PY -c "import hypothesis, mpmath, jsonschema, sortedcontainers, attr" 2>/dev/null; then
  echo "setup: dependencies already importable"
else
  mkdir -p "$DEPS"
  PIP_NO_INDEX=1 $PY -m pip install --quiet --no-index --find-links /opt/veriftools/wheels \
      --target "$DEPS" --upgrade hypothesis mpmath jsonschema
fi
PYTHONPATH="$DEPS" $PY - <<'PY'
import hypothesis, mpmath, numpy, scipy, pandas
print("setup ok: hypothesis", hypothesis.__version__, "mpmath", mpmath.__version__,
      "numpy", numpy.__version__, "scipy", scipy.__version__, "pandas", pandas.__version__)
PY
