#!/venv/bin/python
"""Entry point of every registered check.

    run_check.py <ID> --tier quick|thorough          run the check (VERIF_SEED, VERIF_TIER honoured)
    run_check.py <ID> --replay <file>                replay one saved case, bypassing Hypothesis

Exit 0: property held on everything explored (KNOWN-FINDING lines allowed);
exit 1: at least one line "VIOLATION property=<id> replay=<path>";
exit 2: harness error / inconclusive (never reported as a violation).
"""

import argparse
import json
import os
import sys

HERE = os.path.dirname(os.path.abspath(__file__))
sys.path.insert(0, HERE)
sys.dont_write_bytecode = True

from vlib import harness  # noqa: E402

QUICK_BUDGET_S = 240      # per shard wall-clock budget after which further cases are skipped
THOROUGH_BUDGET_S = 3000


def main():
    ap = argparse.ArgumentParser()
    ap.add_argument('prop')
    ap.add_argument('--tier', default=os.environ.get('VERIF_TIER') or 'quick',
                    choices=['quick', 'thorough'])
    ap.add_argument('--seed', type=int, default=None)
    ap.add_argument('--shards', type=int, default=None)
    ap.add_argument('--shard', default=None, help='internal: i/N')
    ap.add_argument('--out', default=None, help='internal: shard result file')
    ap.add_argument('--budget', type=float, default=None)
    ap.add_argument('--only', default=None, help='comma-separated sub-property names')
    ap.add_argument('--replay', default=None)
    args = ap.parse_args()

    prop = args.prop.upper()
    seed = args.seed
    if seed is None:
        try:
            seed = int(os.environ.get('VERIF_SEED', '1'))
        except ValueError:
            seed = 1
    only = args.only.split(',') if args.only else None
    budget = args.budget or (QUICK_BUDGET_S if args.tier == 'quick' else THOROUGH_BUDGET_S)

    if args.replay:
        import importlib
        import warnings

        harness.setup_paths()
        warnings.simplefilter('ignore')
        mod = importlib.import_module('checks.' + prop.lower())
        res = harness.replay_file(mod, args.replay, harness.load_known(prop))
        if isinstance(res, harness.Violation):
            print('VIOLATION property=%s replay=%s' % (prop, args.replay))
            print('  sub-property %s: %s' % (res.sub, res.msg[:1000]))
            return harness.EXIT_VIOLATION
        if isinstance(res, str):
            print('KNOWN-FINDING: property=%s replay %s matches open finding %s' % (prop, args.replay, res))
            return harness.EXIT_OK
        print('replay %s: property %s holds on this case' % (args.replay, prop))
        return harness.EXIT_OK

    if args.shard:
        import importlib

        i, n = [int(x) for x in args.shard.split('/')]
        harness.setup_paths()
        harness.rotate_sampling(seed, i)
        mod = importlib.import_module('checks.' + prop.lower())
        res = harness.run_shard(mod, args.tier, seed, i, n, budget, only)
        with open(args.out + '.tmp', 'w') as f:
            json.dump(res, f, default=repr)
        os.replace(args.out + '.tmp', args.out)
        return 0

    nshards = args.shards or min(16, os.cpu_count() or 4)
    return harness.drive(prop, args.tier, seed, nshards, budget, only)


if __name__ == '__main__':
    try:
        code = main()
    except SystemExit:
        raise
    except BaseException:
        import traceback

        traceback.print_exc()
        print('HARNESS-ERROR %s' % ' '.join(sys.argv[1:]))
        code = harness.EXIT_HARNESS
    sys.stdout.flush()
    sys.exit(code)
