"""C16 - a fitted vine is a regular vine of the requested type and depth."""

import signal

import numpy as np
from hypothesis import strategies as st

from vlib import strategies as S
from vlib.harness import Sub, Violation, call, require, value
from vlib.refs import vine as V

PROPERTY_ID = 'C16'
LEVEL = 'exploration'
RULE = ('tables with 2..7 columns (Gaussian copula of a generated factor / equicorrelation / AR(1) / block correlation, '
        'continuous marginals, n 30..300, optional rounding to 0-2 decimals => ties, random sign flips, random column order) '
        'x vine type {center, direct, regular} x truncation 1..8. Oracle: independent structural validator on '
        'VineCopula.to_dict() (tree count, edge count, spanning tree, proximity, conditioned/conditioning sets, no pair '
        'twice, star / path shape), Kruskal maximum-spanning weight of |Kendall tau| for the first regular tree, admissible '
        '(family, theta) on every edge, termination (120 s alarm). A ValueError from fit is a rejected input only for '
        '(nearly) perfectly dependent or heavily tied tables, otherwise a violation. Non-trivial: d >= 4 and >= 2 trees; '
        'distinct = distinct generated case.')
ASSUMPTIONS = [
    'the vine structure is read from the public to_dict() of the fitted model',
    'fit raising ValueError is accepted as input rejection only if max |Kendall tau| of the raw columns >= 0.9 or a column has < 10 distinct values',
]

KINDS = ['normal', 'uniform', 'beta', 'gamma', 'student_t', 'truncnorm', 'mixture']


class Timeout(Exception):
    pass


def _alarm(signum, frame):
    raise Timeout()


def vine_case(dmin=2, dmax=7, nmin=30, nmax=300):
    @st.composite
    def cases(draw):
        table = draw(S.table_spec(dmin, dmax, nmin, nmax, kinds=KINDS, constant=False))
        d = table['corr']['d']
        return {'table': table, 'vine_type': draw(st.sampled_from(['center', 'direct', 'regular'])),
                'truncated': draw(st.one_of(st.integers(1, 8), st.just(3))),
                'trunc_type': draw(st.sampled_from(['int', 'int', 'np.int64', 'np.int32'])),
                'round': draw(st.sampled_from([None, None, None, 2, 1, 0])),
                'flip': draw(st.lists(st.booleans(), min_size=d, max_size=d)),
                'perm': draw(S.SEEDS), 'prefit_seed': draw(st.one_of(st.none(), st.none(), S.SEEDS))}

    return cases()


def build(case):
    df, _ = S.build_table(case['table'])
    X = df.to_numpy().astype(float)
    d = X.shape[1]
    for j, fl in enumerate(case['flip']):
        if fl:
            X[:, j] = -X[:, j]
    if case['round'] is not None:
        s = np.std(X, axis=0)
        s[s == 0] = 1
        X = np.round(X / s * 3, case['round'])
    perm = np.random.RandomState(case['perm']).permutation(d)
    X = X[:, perm]
    import pandas as pd

    names = list(df.columns)
    return pd.DataFrame(X, columns=names)


def degenerate(df):
    X = df.to_numpy()
    if min(len(np.unique(X[:, j])) for j in range(X.shape[1])) < 10:
        return 'few-distinct-values'
    T = V.kendall_matrix(X)
    if np.max(np.abs(T - np.eye(len(T)))) >= 0.9:
        return 'near-perfect-dependence'
    return None


def fit_vine(case, df, random_state=None):
    from copulas.multivariate import VineCopula

    vine = VineCopula(case['vine_type'], random_state=random_state)
    if case.get('prefit_seed') is not None:
        # history: the same object was fitted on another table (one column less when possible), sampled and queried before
        from vlib import models as M

        other = M.variant_table(df, case['prefit_seed'])
        if other.shape[1] > 2 and case['prefit_seed'] % 2:
            other = other.iloc[:, :-1]
        try:
            vine.fit(other, truncated=max(1, case['truncated'] - 1))
            vine.sample(1)
            vine.get_likelihood(np.full((1, other.shape[1]), 0.4))
        except Exception:
            vine = VineCopula(case['vine_type'], random_state=random_state)
        if random_state is not None:
            vine.set_random_state(random_state)
    old = signal.signal(signal.SIGALRM, _alarm)
    signal.alarm(120)
    try:
        # the truncation level as callers produce it: a Python int, or a numpy integer (an element of np.arange, a cell)
        t_arg = {'np.int64': np.int64, 'np.int32': np.int32}.get(case.get('trunc_type'), int)(case['truncated'])
        kind, err = call(vine.fit, df.copy(), truncated=t_arg, allow=(ValueError, Timeout), what='VineCopula.fit')
    finally:
        signal.alarm(0)
        signal.signal(signal.SIGALRM, old)
    if kind == 'exc' and isinstance(err, Timeout):
        raise Violation('VineCopula(%r).fit(truncated=%d) did not terminate within 120 s on a %dx%d table'
                        % (case['vine_type'], case['truncated'], len(df), df.shape[1]), tag='non-termination')
    return vine, kind, err


def admissible(name, theta):
    nm = getattr(name, 'name', str(name)).upper()
    th = float(theta)
    if np.isnan(th):
        return False
    if nm == 'CLAYTON':
        return th > 0
    if nm == 'GUMBEL':
        return th >= 1
    if nm == 'FRANK':
        return th != 0 and np.isfinite(th)
    return False


def oracle(case):
    df = build(case)
    d = df.shape[1]
    vine, kind, err = fit_vine(case, df)
    cls = ['type:' + case['vine_type'], 'd=%d' % d, 'trunc=%d' % min(case['truncated'], 8), 'refitted-model' if case.get('prefit_seed') is not None else 'fresh-model']
    if kind == 'exc':
        why = degenerate(df)
        require(why is not None, 'VineCopula(%r).fit(truncated=%d) raised ValueError(%s) on a %dx%d table without degenerate dependence'
                % (case['vine_type'], case['truncated'], str(err)[:200], len(df), d), tag='fit-raised',
                detail={'error': str(err)[:200]})
        return {'nontrivial': False, 'classes': cls + ['rejected:' + why]}
    vd = value(vine.to_dict, what='VineCopula.to_dict')
    require(vd.get('fitted') is True, 'to_dict() of a fitted vine says fitted=%r' % vd.get('fitted'), tag='fitted-flag')
    try:
        info = V.validate(vd, d, case['truncated'], case['vine_type'])
    except V.Invalid as e:
        raise Violation('%s vine, d=%d, truncation=%d: %s' % (case['vine_type'], d, case['truncated'], e), tag='structure')
    # to_dict mirrors the objects
    require(len(vine.trees) == len(vd['trees']), 'to_dict() has %d trees, the model %d' % (len(vd['trees']), len(vine.trees)), tag='to_dict')
    for tree, td in zip(vine.trees, vd['trees']):
        got = [(e.L, e.R, frozenset(e.D)) for e in tree.edges]
        want = [V.edge_key(e) for e in td['edges']]
        require(got == want, 'to_dict() edges %r differ from the model edges %r' % (want, got), tag='to_dict')
    # pair copulas admissible
    for k, td in enumerate(vd['trees'], start=1):
        for e in td['edges']:
            require(admissible(e['name'], e['theta']), 'tree %d edge %r carries %r with theta=%r' % (k, V.edge_key(e), e['name'], e['theta']),
                    tag='edge-copula')
    # regular vine: first tree is a maximum spanning tree of |tau|
    if case['vine_type'] == 'regular':
        T = np.abs(V.kendall_matrix(df.to_numpy()))
        best = V.max_spanning_weight(T)
        got = sum(T[int(e['L']), int(e['R'])] for e in vd['trees'][0]['edges'])
        require(abs(got - best) <= 1e-9, 'regular vine: first tree has |tau| weight %.6f, maximum spanning tree %.6f' % (got, best), tag='mst')
    if case['round'] is not None:
        cls.append('ties')
    return {'nontrivial': d >= 4 and info['trees'] >= 2, 'classes': cls}


SUBS = [
    Sub('structure', vine_case(), oracle, quick=1600, thorough=96000, shrink=True),
]
