"""C09 - bivariate copula samples have uniform margins and the model's dependence."""

import numpy as np
from hypothesis import strategies as st

from vlib import stats as vs
from vlib import strategies as S
from vlib.harness import Sub, require, target, value
from vlib.refs import archimedean as ref

PROPERTY_ID = 'C09'
LEVEL = 'exploration'
RULE = ('family x tau in +-[0.05,0.8] (negative only for Frank) x model built by setting (theta,tau) or by fit() on '
        '600 reference-sampled rows x sampler seed (int or RandomState) x n (quick: 20000 Clayton / 8000 Frank, Gumbel; '
        'thorough: 60000 / 30000). Oracle: shape/finite/[0,1]; DKW band on both margins; Hoeffding U-statistic band '
        'on Kendall tau vs model.tau and vs tau_theory(theta); empirical joint CDF on a 9x9 grid vs '
        'cumulative_distribution and vs the mpmath reference; Rosenblatt transform (v, dC/dv(u,v)) uniform on the '
        'square. All bands at alpha=1e-13 per assertion (<=6 assertions per case). Non-trivial: |tau|>=0.2; '
        'distinct = distinct generated case.')
ASSUMPTIONS = [
    'statistical clauses are decided up to the stated distribution-free bands (sound, weak); sharp content is in C06-C08',
    'false-alarm probability <= 6 * cases * 1e-13 per run',
]

GRID = np.linspace(0.1, 0.9, 9)


def strategy(tier_n):
    @st.composite
    def cases(draw):
        fam = draw(st.sampled_from(S.FAMILIES))
        # Clayton and Gumbel up to tau 0.9 (theta 18 / 10); Frank up to 0.8 (its CDF overflows beyond theta ~ 37)
        tau = draw(st.floats(0.05, 0.8)) if fam == 'frank' else draw(st.one_of(st.floats(0.05, 0.8), st.floats(0.05, 0.8), st.floats(0.8, 0.9)))
        if fam == 'frank' and draw(st.booleans()):
            tau = -tau
        return {'family': fam, 'tau': tau, 'how': draw(st.sampled_from(['set', 'set', 'fit', 'refit'])), 'tau0': draw(st.floats(0.05, 0.8)),
                'seed': draw(S.SEEDS), 'seed_kind': draw(st.sampled_from(['int', 'RandomState'])),
                'fit_seed': draw(S.SEEDS), 'n_scale': tier_n,
                # the same law whether the rows come from one call or from many small calls (n = 1, 2, 3 per call)
                'chunk': draw(st.sampled_from([None, None, None, 1, 2, 3]))}

    return cases()


def emp_joint(X, grid):
    u, v = X[:, 0], X[:, 1]
    return np.array([[np.mean((u <= a) & (v <= b)) for b in grid] for a in grid])


def oracle(case):
    fam, tau = case['family'], case['tau']
    th = ref.theta_from_tau(fam, tau)
    seed = case['seed'] if case['seed_kind'] == 'int' else np.random.RandomState(case['seed'])
    if case['how'] == 'set':
        cop = S.make_copula(fam, th, tau=tau, random_state=seed)
        # the parameter as callers hold it: a Python float, a numpy scalar or a 0-d array (from a dict, a JSON file, a fit)
        cop.theta = {0: float(th), 1: np.float64(th), 2: np.array(float(th))}[case['seed'] % 3]
    else:
        X0 = ref.sample_ref(fam, th, 600, np.random.RandomState(case['fit_seed']))
        X0 = np.clip(X0, 0, 1)
        from copulas import bivariate

        cop = {'clayton': bivariate.Clayton, 'frank': bivariate.Frank, 'gumbel': bivariate.Gumbel}[fam](random_state=seed)
        try:
            if case['how'] == 'refit':
                # history: the same object was fitted (and used) at another tau before
                tau0 = case.get('tau0', 0.3) * (-1 if (fam == 'frank' and tau > 0) else 1)
                Xp = np.clip(ref.sample_ref(fam, ref.theta_from_tau(fam, tau0), 400, np.random.RandomState(case['fit_seed'] + 1)), 0, 1)
                cop.fit(Xp)
                cop.sample(5)
                cop.cumulative_distribution(Xp[:3])
            cop.fit(X0)
        except ValueError:
            return {'nontrivial': False, 'classes': ['fit-refused']}
    theta = float(cop.theta)
    model_tau = float(cop.tau)
    base = 20000 if fam == 'clayton' else 8000
    n = int(base * case['n_scale'])
    chunk = case.get('chunk')
    if case['how'] == 'set' and case['seed'] % 2 and not chunk:
        # another parameterised copula of the family drew the same uniforms (same seed, same size) a moment ago
        S.interleave_sibling(cop, fam, theta, np.array([[0.3, 0.6], [0.5, 0.5]]), random_state=case['seed'], n_sample=n)
    if chunk:
        n = min(n, 3000) // chunk * chunk
        parts = []
        for _ in range(n // chunk):
            part = np.asarray(value(cop.sample, chunk, what='%s.sample' % type(cop).__name__))
            require(part.shape == (chunk, 2), 'sample(%d) returned shape %s' % (chunk, part.shape), tag='shape')
            parts.append(part)
        X = np.vstack(parts)
    else:
        X = np.asarray(value(cop.sample, n, what='%s.sample' % type(cop).__name__))
    require(X.shape == (n, 2), 'sample(%d) returned shape %s' % (n, X.shape), tag='shape')
    require(float(cop.theta) == theta and float(cop.tau) == model_tau, '%s: sampling changed the model: theta %r -> %r, tau %r -> %r'
            % (fam, theta, cop.theta, model_tau, cop.tau), tag='model-changed')
    require(np.all(np.isfinite(X)), 'sample contains non-finite values', tag='finite')
    require(np.all((X >= 0) & (X <= 1)), 'sample outside [0,1]: min %r max %r' % (X.min(), X.max()), tag='range')
    # a uniform column is continuous: n float64 draws collide with probability ~ n^2 / 2^53 (4e-8 for n = 20000), and
    # the unchanged code showed no repeated value in 14 x 20000 rows over the whole parameter range.  An atom (rows
    # pushed onto a bound or onto a shared value) of a fraction of a percent is far below the DKW band but not uniform.
    for j in (0, 1):
        vals, counts = np.unique(X[:, j], return_counts=True)
        tied = int(counts[counts > 1].sum())
        require(tied <= 3, '%s(theta=%r): column %d of sample(%d) has %d rows sharing their value with another row (most frequent value %r, %d times): '
                'the column has an atom, it is not uniformly distributed' % (fam, theta, j, n, tied, float(vals[np.argmax(counts)]), int(counts.max())),
                tag='margin-atom')
    eps = vs.dkw_eps(n)
    worst = 0.0
    for j in (0, 1):
        d = vs.ks_distance(X[:, j], lambda x: np.clip(x, 0, 1))
        worst = max(worst, d / eps)
        require(d <= eps, '%s(theta=%r): column %d of sample(%d) is not uniform: KS=%.4f > DKW band %.4f' % (fam, theta, j, n, d, eps),
                tag='margin')
    # Kendall tau (subsample to keep the O(n log n) call cheap but the band honest)
    m = min(n, 20000)
    tn = vs.tau_a(X[:m, 0], X[:m, 1])
    band = vs.tau_band_bernstein(m, ref.tau_theory(fam, theta))
    tt = ref.tau_theory(fam, theta)
    require(abs(tn - tt) <= band, '%s(theta=%r): Kendall tau of sample %.4f, theory %.4f (band %.4f)' % (fam, theta, tn, tt, band),
            tag='tau-theory')
    require(abs(tn - model_tau) <= band + (5e-3 if fam == 'frank' else 1e-9),
            '%s: Kendall tau of sample %.4f, model.tau %.4f (band %.4f)' % (fam, tn, model_tau, band), tag='tau-model')
    # joint law on a fixed grid
    G = len(GRID) ** 2
    geps = vs.grid_eps(n, G)
    E = emp_joint(X, GRID)
    pts = np.array([[a, b] for a in GRID for b in GRID])
    Ccode = np.asarray(value(cop.cumulative_distribution, pts, what='cumulative_distribution')).reshape(9, 9)
    Cref = ref.cdf_ref(fam, theta, pts[:, 0], pts[:, 1]).reshape(9, 9)
    d1, d2 = np.abs(E - Ccode).max(), np.abs(E - Cref).max()
    require(d1 <= geps, '%s(theta=%r): empirical joint CDF differs from cumulative_distribution by %.4f (band %.4f)' % (fam, theta, d1, geps),
            tag='joint-code')
    require(d2 <= geps, '%s(theta=%r): empirical joint CDF differs from the reference copula by %.4f (band %.4f)' % (fam, theta, d2, geps),
            tag='joint-reference')
    # Rosenblatt transform with the reference h: (v, h(u|v)) is uniform on the square
    inside = (X[:, 0] > 0) & (X[:, 0] < 1) & (X[:, 1] > 0) & (X[:, 1] < 1)
    w = np.full(n, 0.5)
    w[inside] = ref.h_f64(fam, theta, X[inside, 0], X[inside, 1])
    w[X[:, 0] <= 0] = 0.0
    w[X[:, 0] >= 1] = 1.0
    R = emp_joint(np.column_stack((w, X[:, 1])), GRID)
    P = np.outer(GRID, GRID)
    d3 = np.abs(R - P).max()
    require(d3 <= geps, '%s(theta=%r): Rosenblatt transform of the sample is not uniform on the square (%.4f > %.4f)' % (fam, theta, d3, geps),
            tag='rosenblatt')
    target(max(worst, abs(tn - tt) / band, d2 / geps, d3 / geps), label='statistic/band')
    return {'nontrivial': abs(tau) >= 0.2, 'classes': [fam, 'how:' + case['how'], 'seed:' + case['seed_kind'], 'neg' if tau < 0 else 'pos', 'chunk:%s' % case.get('chunk')]}


# ---- tail corners: where families with the same margins and the same tau differ -------------------------------

def corner_cells(tier, seed):
    """Large samples for a few strongly dependent copulas: the mass of the four corner boxes of side 0.05 separates a
    copula from its survival / reflected versions (same margins, same Kendall tau), which the 9 x 9 grid at
    alpha 1e-13 cannot do below n ~ 80000."""
    rs = np.random.RandomState((seed * 13 + 5) % (2 ** 32))
    n = 40000 if tier == 'quick' else 150000
    cells = [('gumbel', 0.85), ('gumbel', 0.7), ('clayton', 0.85), ('clayton', 0.6), ('frank', 0.7), ('frank', -0.7)]
    return [{'family': f, 'tau': t, 'n': n, 'seed': int(rs.randint(0, 2 ** 31 - 1))} for f, t in cells]


def oracle_corners(case):
    from scipy import stats

    fam, tau, n = case['family'], case['tau'], case['n']
    th = ref.theta_from_tau(fam, tau)
    cop = S.make_copula(fam, th, tau=tau, random_state=case['seed'])
    X = np.asarray(value(cop.sample, n, what='%s.sample' % type(cop).__name__))
    require(X.shape == (n, 2) and np.all(np.isfinite(X)), 'sample(%d) returned shape %s / non-finite values' % (n, X.shape), tag='shape')
    q = 0.05
    C = lambda a, b: float(ref.cdf_ref(fam, th, np.array([a]), np.array([b]))[0])
    boxes = {
        'lower-left': (C(q, q), (X[:, 0] <= q) & (X[:, 1] <= q)),
        'upper-right': (1 - 2 * (1 - q) + C(1 - q, 1 - q), (X[:, 0] > 1 - q) & (X[:, 1] > 1 - q)),
        'lower-right': (q - C(1 - q, q), (X[:, 0] > 1 - q) & (X[:, 1] <= q)),
        'upper-left': (q - C(q, 1 - q), (X[:, 0] <= q) & (X[:, 1] > 1 - q)),
    }
    alpha = vs.ALPHA_I / 8
    for name, (p, mask) in boxes.items():
        k = int(mask.sum())
        p = min(max(p, 0.0), 1.0)
        pv = 2 * min(float(stats.binom.cdf(k, n, p)), float(stats.binom.sf(k - 1, n, p)))
        require(pv >= alpha, '%s(theta=%.4g): %d of %d sampled rows fall into the %s corner box of side %.2f, the copula puts probability %.5f there '
                '(expected %.0f; two-sided binomial p=%.3g)' % (fam, th, k, n, name, q, p, n * p, pv), tag='corner-mass')
    return {'nontrivial': True, 'classes': ['cell:%s/%.2f' % (fam, tau)]}


SUBS = [
    Sub('tail_corners', None, oracle_corners, enumerate_cases=corner_cells),
    Sub('sample_law', strategy(1.0), oracle, quick=160, thorough=0, shrink=False),
    Sub('sample_law_large', strategy(3.5), oracle, quick=0, thorough=640, shrink=False),
]
