"""C12 - conditional sampling fixes the given columns and follows the conditional law."""

import copy

import numpy as np
from hypothesis import strategies as st
from scipy import stats

from vlib import models as M
from vlib import stats as vs
from vlib import strategies as S
from vlib.harness import Sub, require, target, value

PROPERTY_ID = 'C12'
LEVEL = 'exploration'
RULE = ('fitted GaussianMultivariate (2..6 columns, generated Gaussian-copula table n 100..500, marginals from Gaussian / '
        'Uniform / KDE / TruncatedGaussian / Gamma configured as class, FQN, instance or per-column dict) x non-empty proper '
        'subset of columns as conditions, listed in arbitrary order x conditioning values at generated quantiles, at the '
        'training min/max and 0.5-3 ranges outside x dict / Series container x sampler seed x n (4000 quick, 16000 '
        'thorough). Oracle: exact schema and fixed-column equality, conditions object unchanged, dict == Series under the '
        'same seed, order-invariance for a single free column, and the conditional normal law N(S12 S22^-1 z, Schur '
        'complement) computed independently from model.correlation: censored-normal DKW per free column, whitened joint '
        'test (DKW, mean band, Kendall tau) when no censoring is possible. Non-trivial: some |rho(free,conditioned)| >= 0.4 '
        'or >= 2 conditioned columns not in schema order; distinct = distinct generated case. Sub-property tail_conditioning: two Gaussian columns with |rho| 0.97..0.999, condition at a normal score of +-4.3..5.15: the free column is continuous (no rows sharing a value) and N(rho z, 1-rho^2), scores recovered from the fitted Gaussian parameters (no censoring on the oracle side).')
ASSUMPTIONS = [
    'normal scores of the output are recovered through the public fitted marginals, hence censored at Phi^-1(1-EPS)=5.17',
    'statistical bands at alpha=1e-13 per assertion (<= 3*d+3 assertions per case)',
]
EPS32 = float(np.finfo(np.float32).eps)
C_HI = float(stats.norm.ppf(1 - EPS32))
C_LO = float(stats.norm.ppf(EPS32))


def strategy(n_rows):
    @st.composite
    def cases(draw):
        table = draw(S.table_spec(2, 6, 100, 500, constant=False,
                                  kinds=['normal', 'uniform', 'beta', 'gamma', 'student_t', 'truncnorm', 'mixture']))
        table['corr']['lam'] = max(table['corr']['lam'], 0.5)
        table['corr']['rho'] = max(min(table['corr']['rho'], 0.85), -0.85)
        d = table['corr']['d']
        cfg = draw(M.gaussian_config(d, classes=M.FAST_CLASSES))
        k = draw(st.integers(1, d - 1))
        cols = draw(st.permutations(list(range(d))))[:k]
        vals = draw(st.lists(st.one_of(st.floats(0.02, 0.98), st.floats(0.02, 0.98), st.floats(0.1, 0.9), st.floats(0.2, 0.8), st.sampled_from([0.0, 1.0]), st.floats(1.5, 4.0), st.floats(-3.0, -0.5)),
                             min_size=k, max_size=k))
        return {'table': table, 'config': cfg, 'cond_cols': list(cols), 'cond_pos': vals,
                'container': draw(st.sampled_from(['dict', 'series'])), 'seed': draw(S.SEEDS), 'n': n_rows,
                'prefit_seed': draw(st.one_of(st.none(), st.none(), S.SEEDS))}

    return cases()


def cond_value(x, pos):
    """pos in [0,1]: quantile of the training column; >1 or <0: that many ranges beyond max / below min."""
    lo, hi = float(np.min(x)), float(np.max(x))
    rng = (hi - lo) or 1.0
    if 0.0 <= pos <= 1.0:
        return float(np.quantile(x, pos))
    if pos > 1:
        return hi + (pos - 1.0) * rng
    return lo + pos * rng


def make_conditions(names, cols, vals, container):
    import pandas as pd

    keys = [names[j] for j in cols]
    if container == 'dict':
        return {k: v for k, v in zip(keys, vals)}
    return pd.Series(list(vals), index=pd.Index(keys, dtype=object))


def snapshot(cond):
    import pandas as pd

    if isinstance(cond, pd.Series):
        return ('series', list(cond.index), [float(v) for v in cond.to_numpy()], str(cond.dtype))
    return ('dict', list(cond.keys()), [float(v) for v in cond.values()])


def censored_cdf(mu, sd):
    def cdf(t):
        t = np.asarray(t, dtype=float)
        out = stats.norm.cdf((t - mu) / sd)
        out = np.where(t >= C_HI, 1.0, out)
        return np.where(t < C_LO, 0.0, out)

    def cdf_left(t):
        t = np.asarray(t, dtype=float)
        out = stats.norm.cdf((t - mu) / sd)
        out = np.where(t > C_HI, 1.0, out)
        return np.where(t <= C_LO, 0.0, out)

    return cdf, cdf_left


def oracle(case):
    import pandas as pd

    df, _ = S.build_table(case['table'])
    names = list(df.columns)
    d = len(names)
    model = M.build_gaussian(case['config'], names, random_state=case['seed'])
    cols = [j % d for j in case['cond_cols']]
    if case.get('prefit_seed') is not None:
        # history: the same object was fitted on another table and conditionally sampled on the same columns before
        other = M.variant_table(df, case['prefit_seed'])
        value(model.fit, other, what='fit (earlier table)')
        value(model.sample, 3, conditions={names[j]: float(other[names[j]].iloc[0]) for j in cols}, what='sample(conditions) (earlier fit)')
        model.set_random_state(case['seed'])
    value(model.fit, df.copy(), what='fit')
    vals = [cond_value(df[names[j]].to_numpy(), p) for j, p in zip(cols, case['cond_pos'])]
    cond = make_conditions(names, cols, vals, case['container'])
    before = snapshot(cond)
    n = case['n']
    # a second live model: same columns, identical conditioned columns (hence the same normal scores for the same
    # conditions), free columns shuffled against them (another dependence).  It answers the same conditions first.
    if case['seed'] % 2:
        rs_b = np.random.RandomState(case['seed'])
        other_tab = df.copy()
        perm_b = rs_b.permutation(len(df))
        for j in range(d):
            if j not in cols:
                other_tab[names[j]] = df[names[j]].to_numpy()[perm_b]
        byst = M.build_gaussian(case['config'], names, random_state=case['seed'])
        try:
            byst.fit(other_tab)
            byst.sample(3, conditions=make_conditions(names, cols, vals, case['container']))
        except Exception:
            pass
    out = value(model.sample, n, conditions=cond, what='sample(conditions=%s)' % case['container'])
    require(snapshot(cond) == before, 'sample modified the caller\'s conditions: %r -> %r' % (before, snapshot(cond)), tag='conditions-mutated')
    require(isinstance(out, pd.DataFrame) and len(out) == n, 'sample(%d, conditions) returned %s rows' % (n, len(out)), tag='rows')
    require(list(out.columns) == names, 'sample(conditions) columns %r, training columns %r' % (list(out.columns), names), tag='columns')
    for j, v in zip(cols, vals):
        col = out[names[j]].to_numpy()
        require(np.all(col == v), 'conditioned column %r is not equal to the given value %r in every row (e.g. %r)' % (names[j], v, col[:3]),
                tag='fixed-column')
    free = [j for j in range(d) if j not in cols]
    X = out.to_numpy().astype(float)
    require(not np.isnan(X).any(), 'sample(conditions) contains NaN', tag='nan')
    # same seed, other container / same order => identical output
    other = make_conditions(names, cols, vals, 'series' if case['container'] == 'dict' else 'dict')
    twin = M.build_gaussian(case['config'], names, random_state=case['seed'])
    twin.univariates, twin.columns, twin.correlation, twin.fitted = model.univariates, model.columns, model.correlation, True
    out2 = value(twin.sample, n, conditions=other, what='sample(conditions=other container)')
    require(list(out2.columns) == names and np.allclose(out2.to_numpy().astype(float), X, rtol=1e-12, atol=0, equal_nan=True),
            'dict and Series conditions give different samples under the same seed', tag='container')
    # ---- the conditional law, computed independently ----
    Cm = model.correlation.to_numpy().astype(float)
    unis = model.univariates
    z = np.array([stats.norm.ppf(np.clip(float(np.ravel(value(unis[j].cdf, np.array([v]), what='univariate.cdf'))[0]), EPS32, 1 - EPS32))
                  for j, v in zip(cols, vals)])
    S11 = Cm[np.ix_(free, free)]
    S12 = Cm[np.ix_(free, cols)]
    S22 = Cm[np.ix_(cols, cols)]
    w22 = np.linalg.eigvalsh(S22)
    if w22.min() < 1e-6:
        return {'nontrivial': False, 'classes': ['precondition:singular-conditioning-block']}
    K = S12 @ np.linalg.inv(S22)
    mu = K @ z
    Sb = S11 - K @ S12.T
    Sb = (Sb + Sb.T) / 2
    sd = np.sqrt(np.maximum(np.diag(Sb), 0))
    scores = np.empty((n, len(free)))
    for a, j in enumerate(free):
        u = np.asarray(value(unis[j].cdf, X[:, j].copy(), what='univariate.cdf'), dtype=float)
        scores[:, a] = stats.norm.ppf(np.clip(u, EPS32, 1 - EPS32))
    eps = vs.dkw_eps(n)
    worst = 0.0
    cls = ['d=%d' % d, 'k=%d' % len(cols), 'container:' + case['container'], 'refitted-model' if case.get('prefit_seed') is not None else 'fresh-model']
    unresolved = False
    for a, j in enumerate(free):
        if sd[a] < 1e-6:
            cls.append('degenerate-free-column')
            continue
        # precondition: the fitted marginal must be continuous at the floating-point resolution of its values
        # (a degenerate MLE fit, e.g. Gamma with shape 0.1 and |loc| ~ 1e3, puts visible mass inside one ulp: the
        # normal scores of the sample then cannot be recovered through the marginal CDF)
        xs = np.sort(X[:, j])
        dl = vs.resolution_of(unis[j])(xs)
        with np.errstate(invalid='ignore'):
            jump = np.nanmax(np.asarray(unis[j].cdf(xs + dl), dtype=float) - np.asarray(unis[j].cdf(xs - dl), dtype=float))
        if jump > 1e-3:
            cls.append('marginal-not-continuous-at-float-resolution')
            unresolved = True
            continue
        cdf, cdf_left = censored_cdf(mu[a], sd[a])
        dist = vs.ks_distance_atoms(scores[:, a], cdf, cdf_left)
        worst = max(worst, dist / eps)
        require(dist <= eps, 'free column %r given %r: normal scores are not N(%.3f, %.3f^2) (censored at +-5.17): KS %.4f > band %.4f; '
                'sample mean %.3f sd %.3f' % (names[j], dict(zip([names[c] for c in cols], vals)), mu[a], sd[a], dist, eps,
                                             scores[:, a].mean(), scores[:, a].std()), tag='conditional-marginal',
                detail={'mu': float(mu[a]), 'sd': float(sd[a])})
    # censoring probability per coordinate < 1e-4 (its total mass is added to the bands below)
    uncensored = np.all(sd > 1e-3) and np.all((min(C_HI, -C_LO) - np.abs(mu)) / np.maximum(sd, 1e-12) > 3.72)
    cens = 1e-4 * len(free)
    if uncensored and not unresolved and np.linalg.eigvalsh(Sb).min() > 1e-8:
        cls.append('joint-whitened')
        L = np.linalg.cholesky(Sb)
        W = np.linalg.solve(L, (scores - mu).T).T
        mband = vs.mean_band(n)
        for a in range(W.shape[1]):
            dist = vs.ks_distance(W[:, a], stats.norm.cdf)
            worst = max(worst, dist / eps)
            require(dist <= eps + cens, 'whitened conditional scores, coordinate %d: KS %.4f > band %.4f (conditional covariance wrong)' % (a, dist, eps),
                    tag='conditional-joint')
            require(abs(W[:, a].mean()) <= mband + 10 * cens, 'whitened conditional scores, coordinate %d: mean %.4f > band %.4f' % (a, W[:, a].mean(), mband),
                    tag='conditional-mean')
        tb = vs.tau_band(min(n, 8000))
        for a in range(W.shape[1]):
            for b in range(a + 1, W.shape[1]):
                t = vs.kendall_tau(W[:8000, a], W[:8000, b])
                require(abs(t) <= tb, 'whitened conditional scores %d,%d are dependent: tau %.3f > band %.3f' % (a, b, t, tb), tag='conditional-dependence')
    else:
        cls.append('censored')
    # ---- order invariance (sharp) when exactly one column is free: 1x1 covariance => same stream ----
    in_order = cols == sorted(cols)
    if len(free) == 1 and not in_order:
        order = sorted(range(len(cols)), key=lambda i: cols[i])
        cond_sorted = make_conditions(names, [cols[i] for i in order], [vals[i] for i in order], 'dict')
        twin2 = M.build_gaussian(case['config'], names, random_state=case['seed'])
        twin2.univariates, twin2.columns, twin2.correlation, twin2.fitted = model.univariates, model.columns, model.correlation, True
        out3 = value(twin2.sample, n, conditions=cond_sorted, what='sample(conditions in schema order)')
        a3 = out3[names[free[0]]].to_numpy().astype(float)
        a1 = X[:, free[0]]
        fin = np.isfinite(a1) & np.isfinite(a3)
        scale = np.std(df[names[free[0]]].to_numpy()) or 1.0
        require(np.array_equal(np.isfinite(a1), np.isfinite(a3)) and np.all(np.abs(a1[fin] - a3[fin]) <= 1e-6 * scale),
                'the order in which conditions are listed changes the sample (same seed): max diff %.3g'
                % (np.max(np.abs(a1[fin] - a3[fin])) if fin.any() else np.inf), tag='condition-order')
        cls.append('order-invariance-checked')
    rho_fc = np.abs(S12).max() if S12.size else 0.0
    out_of_order = sum(1 for i in range(len(cols) - 1) if cols[i] > cols[i + 1]) > 0
    target(worst, label='KS/band')
    if not in_order:
        cls.append('conditions-out-of-schema-order')
    if any(p < 0 or p > 1 for p in case['cond_pos']):
        cls.append('value-outside-range')
    return {'nontrivial': bool(rho_fc >= 0.4 or (len(cols) >= 2 and out_of_order)), 'classes': cls}


# ---- tail conditioning: the conditional law keeps its tail --------------------------------------------------

def tail_strategy():
    return st.fixed_dictionaries({
        'rho': st.floats(0.97, 0.999), 'rho_neg': st.booleans(), 'z': st.one_of(st.floats(4.3, 5.15), st.floats(4.85, 5.15), st.floats(4.85, 5.15)), 'z_neg': st.booleans(),
        'n_train': st.integers(300, 800), 'seed': S.SEEDS, 'loc_a': st.floats(-100, 100), 'loc_b': st.floats(-100, 100),
        'sa': st.floats(-1, 2), 'sb': st.floats(-1, 2), 'extra': st.booleans(), 'container': st.sampled_from(['dict', 'series']),
    })


def oracle_tail(case):
    """A condition far out in the tail of a column that is almost a copy of another one: the free column is
    N(rho z, 1 - rho^2) in normal-score space, concentrated around +-5.  Its values are still continuous - no rows
    pushed onto one value - and follow that law (the scores are recovered from the fitted Gaussian parameters, not
    through the clipped CDF, so nothing is censored on the oracle's side)."""
    import pandas as pd
    from copulas.multivariate import GaussianMultivariate
    from copulas.univariate import GaussianUnivariate

    rs = np.random.RandomState(case['seed'])
    rho = case['rho'] * (-1 if case['rho_neg'] else 1)
    Z = rs.normal(size=(case['n_train'], 3))
    Z[:, 1] = rho * Z[:, 0] + np.sqrt(1 - rho * rho) * Z[:, 1]
    cols = {'a': case['loc_a'] + 10.0 ** case['sa'] * Z[:, 0], 'b': case['loc_b'] + 10.0 ** case['sb'] * Z[:, 1]}
    if case['extra']:
        cols['c'] = Z[:, 2]
    df = pd.DataFrame(cols)
    model = GaussianMultivariate(distribution=GaussianUnivariate)
    value(model.fit, df.copy(), what='GaussianMultivariate.fit')
    pa, pb = model.univariates[0].to_dict(), model.univariates[1].to_dict()
    zt = case['z'] * (-1 if case['z_neg'] else 1)
    x_cond = float(pa['loc'] + pa['scale'] * zt)
    cond = {'a': x_cond} if case['container'] == 'dict' else pd.Series({'a': x_cond})
    n = 1500
    out = value(model.sample, n, conditions=cond, what='sample(conditions)')
    require(list(out.columns) == list(df.columns) and len(out) == n, 'sample(%d, conditions) returned columns %r, %d rows' % (n, list(out.columns), len(out)),
            tag='schema')
    vals = out['b'].to_numpy().astype(float)
    require(np.all(np.isfinite(vals)), 'free column contains non-finite values for the condition a=%r (normal score %.3f)' % (x_cond, zt), tag='finite')
    _, counts = np.unique(vals, return_counts=True)
    tied = int(counts[counts > 1].sum())
    rho_fit = float(model.correlation.loc['a', 'b'])
    mu, sd = rho_fit * zt, float(np.sqrt(max(1 - rho_fit ** 2, 0.0)))
    require(tied <= 5, 'sample(%d, conditions={a: %r}) (normal score %.3f, correlation %.4f): %d rows of the free column b share their value with '
            'another row (largest group %d): the conditional law N(%.3f, %.3f^2) lost its tail to a point mass'
            % (n, x_cond, zt, rho_fit, tied, int(counts.max()), mu, sd), tag='tail-atom')
    zb = (vals - pb['loc']) / pb['scale']
    dist = vs.ks_distance(zb, lambda t: stats.norm.cdf((t - mu) / sd))
    eps = vs.dkw_eps(n)
    require(dist <= eps, 'free column b given a=%r: normal scores are not N(%.3f, %.3f^2): KS %.4f > band %.4f; sample mean %.3f sd %.3f'
            % (x_cond, mu, sd, dist, eps, float(np.mean(zb)), float(np.std(zb))), tag='conditional-law')
    beyond = float(stats.norm.sf((5.1666 - abs(mu)) / sd))
    return {'nontrivial': beyond > 0.01, 'classes': ['tail-mass>1%' if beyond > 0.01 else 'tail-mass<=1%', 'container:' + case['container']]}


SUBS = [
    Sub('tail_conditioning', tail_strategy(), oracle_tail, quick=48, thorough=4800),
    Sub('conditional_law', strategy(4000), oracle, quick=96, thorough=0, shrink=False),
    Sub('conditional_law_large', strategy(16000), oracle, quick=0, thorough=1600, shrink=False),
]
