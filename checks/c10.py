"""C10 - bivariate fit calibrates theta to the data's Kendall tau or refuses."""

import numpy as np
from hypothesis import strategies as st
from scipy import stats

from vlib import strategies as S
from vlib.harness import Sub, Violation, call, require, target, value
from vlib.refs import archimedean as ref

PROPERTY_ID = 'C10'
LEVEL = 'exploration'
RULE = ('(n,2) pseudo-observation arrays, n 2..400: samples of a reference copula sampler at generated theta '
        '(optionally rounded to 1-3 decimals => ties), monotone / anti-monotone, shuffled-independent, exact tau=0 '
        'constructions, raw Hypothesis point lists of 2..12 rows, and invalid inputs (constant column, value outside '
        '[0,1] by 10^-k); every array is fitted with Clayton, Frank and Gumbel. Oracle: tau == scipy tau-b, theta == '
        'closed-form / Debye calibration, admissible theta and a usable model, otherwise ValueError; refusal after a '
        'valid fit never exposes the half-written state. Non-trivial: n >= 10; success and refusal classes are both '
        'counted; distinct = distinct generated case.')
ASSUMPTIONS = [
    'Frank tau->theta is a least-squares solve: calibration band 5e-3 in tau for |tau| <= 0.99',
    'for |tau| = 1 only admissibility of theta (family interval) or refusal is required',
]

FAMS = ['clayton', 'frank', 'gumbel']


def data_strategy(valid_only=False):
    copula = st.fixed_dictionaries({
        'kind': st.just('copula'), 'family': st.sampled_from(FAMS), 'tau': st.floats(-0.95, 0.95),
        'n': st.integers(2, 400), 'seed': S.SEEDS, 'round': st.sampled_from([None, None, 3, 2, 1]),
    })
    mono = st.fixed_dictionaries({
        'kind': st.sampled_from(['monotone', 'anti', 'indep']), 'n': st.integers(2, 400), 'seed': S.SEEDS,
        'round': st.sampled_from([None, 2, 1]),
    })
    tau0 = st.fixed_dictionaries({'kind': st.just('tau0'), 'reps': st.integers(1, 20), 'seed': S.SEEDS})
    coord = st.one_of(st.floats(0, 1), st.sampled_from([0.0, 0.25, 0.5, 0.75, 1.0]))
    raw = st.fixed_dictionaries({'kind': st.just('raw'),
                                 'pts': st.lists(st.tuples(coord, coord).map(list), min_size=2, max_size=12)})
    parts = [copula, copula, mono, tau0, raw]
    if not valid_only:
        const = st.fixed_dictionaries({'kind': st.just('constant'), 'n': st.integers(2, 100), 'seed': S.SEEDS,
                                       'col': st.integers(0, 1), 'value': st.floats(0, 1)})
        oor = st.fixed_dictionaries({'kind': st.just('outofrange'), 'n': st.integers(2, 100), 'seed': S.SEEDS,
                                     'col': st.integers(0, 1), 'k': st.floats(-12, 0), 'high': st.booleans(),
                                     'row': st.integers(0, 99)})
        parts += [const, oor]
    return st.one_of(*parts)


def build(spec):
    k = spec['kind']
    if k == 'raw':
        return np.array(spec['pts'], dtype=float)
    if k == 'tau0':
        base = np.array([[1, 2], [2, 4], [3, 1], [4, 3]], dtype=float)
        X = np.concatenate([base + 4 * i for i in range(spec['reps'])])
        # blocks are comonotone between each other -> only within-block pairs cancel; instead tile the
        # same block values (ties across blocks keep tau-b exactly 0 by symmetry)
        X = np.tile(base, (spec['reps'], 1)) / 5.0
        return X
    rs = np.random.RandomState(spec['seed'])
    n = spec['n']
    if k == 'copula':
        fam = spec['family']
        tau = spec['tau']
        if fam in ('clayton', 'gumbel'):
            tau = abs(tau)
        if fam == 'clayton':
            tau = max(tau, 1e-3)
        th = ref.theta_from_tau(fam, tau)
        if fam == 'frank' and th == 0:
            th = 1e-3
        X = ref.sample_ref(fam, th, n, rs)
        X = np.clip(np.nan_to_num(X, nan=0.5), 0.0, 1.0)
    elif k == 'monotone':
        u = rs.uniform(size=n)
        X = np.column_stack((u, u ** 2))
    elif k == 'anti':
        u = rs.uniform(size=n)
        X = np.column_stack((u, 1 - u ** 3))
    elif k == 'indep':
        X = rs.uniform(size=(n, 2))
    elif k == 'constant':
        X = rs.uniform(size=(n, 2))
        X[:, spec['col']] = spec['value']
    elif k == 'outofrange':
        X = rs.uniform(size=(n, 2))
        delta = 10.0 ** spec['k']
        X[spec['row'] % n, spec['col']] = 1.0 + delta if spec['high'] else -delta
    else:
        raise ValueError(k)
    if spec.get('round') is not None:
        X = np.round(X, spec['round'])
    return X


def expected(X):
    """What the property demands for this array: ('refuse', why) or ('tau', value)."""
    U, V = X[:, 0], X[:, 1]
    if U.min() < 0 or U.max() > 1 or V.min() < 0 or V.max() > 1:
        return 'refuse', 'value outside [0,1]'
    if len(np.unique(U)) == 1 or len(np.unique(V)) == 1:
        return 'refuse', 'constant column'
    tau = stats.kendalltau(U, V)[0]
    if np.isnan(tau):
        return 'refuse', 'tau undefined'
    return 'tau', float(tau)


def make(fam):
    from copulas import bivariate

    return {'clayton': bivariate.Clayton, 'frank': bivariate.Frank, 'gumbel': bivariate.Gumbel}[fam]()


def check_fitted(fam, cop, X, tau):
    """A fit that returned normally must leave a calibrated, admissible, usable model."""
    require(cop.tau is not None and abs(cop.tau - tau) <= 1e-15, '%s.fit: tau=%r but Kendall tau-b of the data is %r' % (fam, cop.tau, tau),
            tag='tau')
    th = cop.theta
    require(th is not None and not np.isnan(th), '%s.fit returned with theta=%r' % (fam, th), tag='theta-missing')
    th = float(th)
    if abs(tau) == 1:
        lo, hi = {'clayton': (0, np.inf), 'gumbel': (1, np.inf), 'frank': (-np.inf, np.inf)}[fam]
        require(lo <= th <= hi, '%s.fit: theta=%r outside the family interval for tau=%r' % (fam, th, tau), tag='admissible')
        return 'tau=+-1'
    if fam == 'clayton':
        want = 2 * tau / (1 - tau)
        require(abs(th - want) <= 1e-12 * max(1, abs(want)), 'Clayton.fit: theta=%r, calibration 2tau/(1-tau)=%r' % (th, want), tag='calibration')
        require(th > 0 and np.isfinite(th), 'Clayton.fit returned normally with inadmissible theta=%r (tau=%r)' % (th, tau), tag='admissible')
    elif fam == 'gumbel':
        want = 1 / (1 - tau)
        require(abs(th - want) <= 1e-12 * max(1, abs(want)), 'Gumbel.fit: theta=%r, calibration 1/(1-tau)=%r' % (th, want), tag='calibration')
        require(th >= 1 and np.isfinite(th), 'Gumbel.fit returned normally with inadmissible theta=%r (tau=%r)' % (th, tau), tag='admissible')
    else:
        require(np.isfinite(th) and th != 0, 'Frank.fit returned normally with inadmissible theta=%r (tau=%r)' % (th, tau), tag='admissible')
        if abs(tau) <= 0.99:
            got = ref.tau_theory('frank', th)
            # measured accuracy of the library's least-squares calibration over 4100 taus: 6.7e-7 for |tau| >= 0.1,
            # 5.9e-5 for 0.01 <= |tau| < 0.1, 3.0e-3 below (the solver stops early where tau(theta) is flat)
            tol = 1e-5 if abs(tau) >= 0.1 else 5e-4 if abs(tau) >= 0.01 else 5e-3
            require(abs(got - tau) <= tol, 'Frank.fit: theta=%r has theoretical tau %r, data tau %r (tolerance %g)' % (th, got, tau, tol), tag='calibration')
            target(abs(got - tau) / tol, label='frank calibration err/tol')
    # the model must be usable: cdf at an interior point is the family's value at the fitted theta
    kind, out = call(cop.cumulative_distribution, np.array([[0.3, 0.6]]), allow=(Exception,))
    require(kind == 'ok', '%s.fit returned normally (tau=%r, theta=%r) but the model cannot be queried: %s: %s'
            % (fam, tau, th, type(out).__name__, out), tag='silently-invalid')
    c = float(np.ravel(out)[0])
    # the value itself is compared inside the supported parameter range of C06 only (|tau| <= 0.8): beyond it the
    # closed forms overflow (Clayton theta = 593 from nearly monotone data: 0.3**-593 = inf, cdf 0.0; Frank theta = 710: cdf inf) - a limit of
    # the families' numerics, not a silently invalid fit
    supported = {'clayton': 0 < th <= 8.0, 'gumbel': 1 <= th <= 5.0, 'frank': 0 < abs(th) <= 18.2}[fam]
    if np.isfinite(th) and supported:
        want = float(ref.cdf_mp(fam, th, 0.3, 0.6))
        tol = 1e-9 + (64 * 2.2e-16 * (1 + np.exp(min(abs(th), 700))) / abs(th) if fam == 'frank' else 0)
        require(abs(c - want) <= min(tol, 0.05) or tol > 0.05, '%s fitted (theta=%r): cdf(0.3,0.6)=%r, family value %r' % (fam, th, c, want),
                tag='usable')
    return 'calibrated'


def oracle_fit(case):
    X = build(case['data'])
    exp_kind, exp = expected(X)
    classes = ['data:' + case['data']['kind']]
    for fam in FAMS:
        cop = make(fam)
        kind, out = call(cop.fit, X.copy(), allow=(ValueError,), what=type(cop).__name__ + '.fit')
        if exp_kind == 'refuse':
            require(kind == 'exc', '%s.fit accepted invalid data (%s): tau=%r theta=%r' % (fam, exp, cop.tau, cop.theta),
                    tag='accepted-invalid', detail={'why': exp})
            classes.append(fam + ':refused-invalid')
            continue
        tau = exp
        no_theta = (fam in ('clayton', 'gumbel') and tau < 0) or (fam == 'gumbel' and tau == 1) or (fam == 'clayton' and tau == 0)
        if no_theta:
            require(kind == 'exc', '%s.fit returned normally for tau=%r (no admissible theta): theta=%r' % (fam, tau, cop.theta),
                    tag='silently-invalid')
            classes.append(fam + ':refused-no-theta')
            continue
        if kind == 'exc':
            # a refusal where an admissible theta exists is only tolerated for Frank at |tau| ~ 1 (solver range)
            require(fam == 'frank' and abs(tau) > 0.99, '%s.fit refused data with tau=%r although an admissible theta exists: %s' % (fam, tau, out),
                    tag='spurious-refusal')
            classes.append(fam + ':refused-extreme')
            continue
        classes.append(fam + ':' + check_fitted(fam, cop, X, tau))
    return {'nontrivial': len(X) >= 10, 'classes': classes}


def history_strategy():
    return st.fixed_dictionaries({'first': data_strategy(valid_only=True), 'second': data_strategy(),
                                  'family': st.sampled_from(FAMS)})


def oracle_history(case):
    """fit(valid) ; fit(second) ; query - a refused second fit never exposes a half-written state."""
    fam = case['family']
    X1, X2 = build(case['first']), build(case['second'])
    cop = make(fam)
    k1, _ = call(cop.fit, X1.copy(), allow=(ValueError,), what='fit')
    q = np.array([[0.3, 0.6], [0.7, 0.2]])
    before = None
    if k1 == 'ok':
        kq, before = call(cop.cumulative_distribution, q, allow=(Exception,))
        if kq != 'ok':
            before = None
    k2, _ = call(cop.fit, X2.copy(), allow=(ValueError,), what='fit')
    kq, after = call(cop.cumulative_distribution, q, allow=(Exception,))
    cls = ['first:%s' % k1, 'second:%s' % k2]
    if k2 == 'exc' and kq == 'ok':
        require(before is not None and np.array_equal(np.asarray(after), np.asarray(before)),
                '%s: after a refused fit the model answers %r (before the refused fit: %r)' % (fam, after, before), tag='half-written')
        cls.append('answers-previous')
    elif k2 == 'exc':
        cls.append('raises-after-refusal')
    else:
        ek, ev = expected(X2)
        require(ek == 'tau', '%s.fit accepted invalid data as second fit' % fam, tag='accepted-invalid')
        # the refit must be calibrated to the second dataset only
        fresh = make(fam)
        value(fresh.fit, X2.copy(), what='fit')
        require(fresh.theta == cop.theta and fresh.tau == cop.tau, '%s: refit gives theta=%r tau=%r, fresh fit theta=%r tau=%r'
                % (fam, cop.theta, cop.tau, fresh.theta, fresh.tau), tag='refit')
    return {'nontrivial': k1 == 'ok' and len(X2) >= 10, 'classes': cls}


SUBS = [
    Sub('fit', st.fixed_dictionaries({'data': data_strategy()}), oracle_fit, quick=1600, thorough=384000),
    Sub('refusal_history', history_strategy(), oracle_history, quick=800, thorough=192000),
]
