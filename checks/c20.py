"""C20 - library calls never modify caller-owned inputs; plots show exactly the data."""

import copy

import numpy as np
from hypothesis import strategies as st

from vlib import observe as O
from vlib import strategies as S
from vlib.harness import Sub, Violation, call, require, value

PROPERTY_ID = 'C20'
LEVEL = 'exploration'
RULE = ('(a) generated calls of every public entry point - univariate fit/cdf/pdf/ppf (every family), bivariate '
        'fit/cdf/pdf/partial_derivative/percent_point/select_copula, GaussianMultivariate fit/pdf/cdf/sample(conditions), '
        'VineCopula fit/get_likelihood, bisect/chandrupatla, the dataset helpers with a RandomState seed - with arguments in '
        'every documented container (ndarray C/F order with writeable=False, DataFrame, Series, dict, list): a deep snapshot '
        '(values, dtype, labels, key order, RNG state) must be equal before and after, a write into a read-only array is a '
        'violation, and a second call with the same argument objects gives the same result. (b) scatter_2d/3d and '
        'compare_2d/3d on generated frames (duplicated rows, extra columns, requested columns in any order or defaulted): per '
        'trace name the multiset of plotted points equals the multiset of rows of the corresponding frame, nothing else is '
        'plotted, the columns list is not modified (also when the call is rejected for a wrong column count). Non-trivial: a mutable argument '
        'object that is re-used for the second call; distinct = distinct generated case.')
ASSUMPTIONS = [
    'figures are inspected through the plotly figure object (trace name, x, y, z)',
]

UNI = ['GaussianUnivariate', 'UniformUnivariate', 'BetaUnivariate', 'GammaUnivariate', 'StudentTUnivariate', 'LogLaplace',
       'TruncatedGaussian', 'GaussianKDE', 'Univariate']
CALLS = ['uni_select', 'uni_fit', 'uni_query', 'biv_fit', 'biv_query', 'select_copula', 'gauss_fit', 'gauss_query', 'gauss_sample_cond',
         'vine_fit', 'vine_likelihood', 'bisect', 'chandrupatla', 'dataset']


def snapshot(x):
    import pandas as pd

    if isinstance(x, np.ndarray):
        return ('ndarray', str(x.dtype), x.shape, x.tobytes(), bool(x.flags.writeable), bool(x.flags.f_contiguous))
    if isinstance(x, pd.DataFrame):
        return ('frame', [repr(c) for c in x.columns], [repr(i) for i in x.index[:50]], [str(t) for t in x.dtypes], x.to_numpy().tobytes() if x.size and x.to_numpy().dtype != object else repr(x.to_numpy().tolist()))
    if isinstance(x, pd.Series):
        return ('series', [repr(i) for i in x.index], str(x.dtype), repr(x.name), x.to_numpy().tobytes() if x.dtype != object else repr(x.tolist()))
    if isinstance(x, dict):
        return ('dict', [(repr(k), snapshot(v)) for k, v in x.items()])
    if isinstance(x, (list, tuple)):
        return (type(x).__name__, [snapshot(v) for v in x])
    if isinstance(x, np.random.RandomState):
        s = x.get_state()
        return ('RandomState', s[0], s[1].tobytes(), s[2:])
    return ('value', repr(x))


def as_array(X, kind):
    if kind == 'ndarray_f':
        return np.asfortranarray(np.array(X, dtype=float))
    if kind == 'ndarray_ro':
        A = np.ascontiguousarray(X, dtype=float)
    elif kind == 'ndarray_f_ro':
        A = np.asfortranarray(X, dtype=float)
    else:
        return np.array(X, dtype=float)
    A.flags.writeable = False
    return A


def call_strategy():
    return st.fixed_dictionaries({
        'call': st.sampled_from(CALLS), 'seed': S.SEEDS, 'n': st.integers(8, 60), 'd': st.integers(2, 4),
        'container': st.sampled_from(['ndarray', 'ndarray_f', 'ndarray_ro', 'ndarray_f_ro', 'frame', 'series', 'list']),
        'cls': st.sampled_from(UNI), 'family': st.sampled_from(S.FAMILIES), 'vine_type': st.sampled_from(['center', 'direct', 'regular']),
        'cond': st.sampled_from(['dict', 'series']), 'dataset': st.sampled_from(['sample_univariate_normal', 'sample_bivariate_age_income', 'sample_trivariate_xyz',
                                                                               'sample_univariate_bimodal', 'sample_univariates']),
    })


def run_twice(fn, args, what, mutable_desc, allow=()):
    """Snapshot the arguments, call fn(*args) twice with the same objects, compare snapshots and results."""
    before = [snapshot(a) for a in args]
    k1, r1 = call(fn, *args, allow=allow, what=what)
    mid = [snapshot(a) for a in args]
    for i, (b, m) in enumerate(zip(before, mid)):
        require(b == m, '%s modified its argument #%d (%s)' % (what, i, mutable_desc[i] if i < len(mutable_desc) else '?'), tag='input-mutated',
                detail={'arg': i})
    k2, r2 = call(fn, *args, allow=allow, what=what + ' (second call with the same objects)')
    after = [snapshot(a) for a in args]
    for i, (b, m) in enumerate(zip(before, after)):
        require(b == m, '%s modified its argument #%d on the second call' % (what, i), tag='input-mutated')
    for k_, r_ in ((k1, r1), (k2, r2)):
        require(not (k_ == 'exc' and 'read-only' in str(r_)), '%s tried to write into a read-only argument: %s' % (what, r_), tag='input-mutated')
    if k1 == 'exc' or k2 == 'exc':
        # a documented refusal (e.g. no admissible theta for this sample): both calls must refuse alike
        return '<refused %s>' % type(r1).__name__ if k1 == 'exc' else r1, '<refused %s>' % type(r2).__name__ if k2 == 'exc' else r2
    return r1, r2


def same_result(r1, r2, what, rtol=0.0, atol=0.0):
    d = O.first_difference(O.normalise(r1), O.normalise(r2), rtol=rtol, atol=atol)
    require(d is None, '%s: a second identical call with the same argument objects gives a different result: %s' % (what, d), tag='reuse-differs')


def oracle_call(case):
    import pandas as pd
    from copulas import datasets, optimize
    from copulas.bivariate import select_copula
    from copulas.multivariate import GaussianMultivariate, VineCopula
    from copulas.univariate import GaussianUnivariate
    from vlib import models as M
    from vlib.refs.archimedean import sample_ref, theta_from_tau

    rs = np.random.RandomState(case['seed'])
    n, d, cont = case['n'], case['d'], case['container']
    name = case['call']
    cls = ['call:' + name]
    reused = True
    if name == 'uni_select':
        # a caller-owned candidate list, one of whose entries cannot be fitted
        from copulas.univariate import Univariate
        from copulas.univariate.selection import select_univariate
        from vlib import support

        x = rs.gamma(2.0, size=n) + 1.0
        order = rs.permutation(4)
        pool = [M.uni_class('GaussianUnivariate'), support.Boom, M.uni_class('GammaUnivariate'), 'copulas.univariate.no_such_module.Nope']
        cands = [pool[i] for i in order]
        keep = list(cands)

        def fit_obs(lst, data):
            m = Univariate(candidates=lst)
            m.fit(data)
            return m.to_dict()

        r1, r2 = run_twice(fit_obs, [cands, x], 'Univariate(candidates=list).fit', ['candidates', 'training data'])
        same_result(r1, r2, 'Univariate(candidates=list).fit')
        require(len(cands) == len(keep) and all(a is b for a, b in zip(cands, keep)), 'Univariate.fit modified the caller\'s candidates list: %r' % (cands,), tag='input-mutated')
        r1, r2 = run_twice(lambda data, lst: type(select_univariate(data, lst)).__name__, [x, cands], 'select_univariate', ['data', 'candidates'])
        same_result(r1, r2, 'select_univariate')
        require(len(cands) == len(keep) and all(a is b for a, b in zip(cands, keep)), 'select_univariate modified the caller\'s candidates list: %r' % (cands,), tag='input-mutated')
        cls.append('candidates-with-failing-entry')
    elif name in ('uni_fit', 'uni_query'):
        x = rs.gamma(2.0, size=n) + 1.0
        kind = cont if cont in ('ndarray', 'ndarray_ro', 'series') else 'ndarray_ro'
        arg = pd.Series(x.copy(), name='col') if kind == 'series' else as_array(x, kind)
        cls.append('container:' + kind)
        ucls = M.uni_class(case['cls'])
        # constructor options that change what fit does with the data (user bounds narrower than the data, kernel weights,
        # a resample size); a refusal of such a configuration is fine, writing into the training data is not
        opts, variant = {}, 'default'
        if case['cls'] == 'TruncatedGaussian' and case['seed'] % 3:
            lo_q, hi_q = (0.1, 0.9) if case['seed'] % 3 == 1 else (0.0, 1.0)
            opts, variant = {'minimum': float(np.quantile(x, lo_q)) - (lo_q == 0.0), 'maximum': float(np.quantile(x, hi_q)) + (hi_q == 1.0)}, \
                'bounds-inside-data' if lo_q else 'bounds-around-data'
        elif case['cls'] == 'GaussianKDE' and case['seed'] % 3:
            opts, variant = ({'weights': rs.uniform(0.1, 1.0, size=n)}, 'weights') if case['seed'] % 3 == 1 else ({'sample_size': 25, 'bw_method': 0.5}, 'sample_size')
        cls.append('options:' + variant)

        def fit_obs(a):
            np.random.seed(1)
            m = ucls(**opts)
            m.fit(a)
            return m.to_dict()

        if name == 'uni_fit':
            r1, r2 = run_twice(fit_obs, [arg], '%s(%s).fit(%s)' % (case['cls'], variant, kind), ['training data'],
                               allow=(ValueError, RuntimeError, FloatingPointError) if variant == 'bounds-inside-data' else ())
            same_result(r1, r2, '%s.fit' % case['cls'])
        else:
            m = ucls()
            np.random.seed(1)
            m.fit(x.copy())
            q = as_array(np.clip(rs.uniform(size=7), 0.01, 0.99), 'ndarray_ro' if cont != 'ndarray' else 'ndarray')
            pts = as_array(np.quantile(x, np.clip(rs.uniform(size=7), 0.01, 0.99)), 'ndarray_ro' if cont != 'ndarray' else 'ndarray')
            for meth, a in (('cdf', pts), ('pdf', pts), ('log_probability_density', pts), ('ppf', q)):
                r1, r2 = run_twice(getattr(m, meth), [a], '%s.%s' % (case['cls'], meth), ['query points'])
                same_result(r1, r2, '%s.%s' % (case['cls'], meth))
    elif name in ('biv_fit', 'biv_query', 'select_copula'):
        fam = case['family']
        X = np.clip(sample_ref(fam, theta_from_tau(fam, 0.5), n, rs), 1e-6, 1 - 1e-6)
        kind = cont if cont in ('ndarray', 'ndarray_f', 'ndarray_ro', 'ndarray_f_ro') else 'ndarray_ro'
        A = as_array(X, kind)
        cls.append('container:' + kind)
        from checks import c10

        if name == 'biv_fit':
            def fit_obs(a):
                m = c10.make(fam)
                m.fit(a)
                return m.to_dict()

            r1, r2 = run_twice(fit_obs, [A], '%s.fit(%s)' % (fam, kind), ['pseudo-observations'], allow=(ValueError,))
            same_result(r1, r2, fam + '.fit')
        elif name == 'select_copula':
            r1, r2 = run_twice(lambda a: select_copula(a).to_dict(), [A], 'select_copula(%s)' % kind, ['pseudo-observations'], allow=(ValueError,))
            same_result(r1, r2, 'select_copula')
        else:
            m = S.make_copula(fam, theta_from_tau(fam, 0.5))
            edge = case['seed'] % 3 == 0
            X0 = X                       # percent_point is only defined for y, v strictly inside (0,1)
            if edge:
                # some (not all) rows on the boundary of the unit square: exact 0 / 1 in one or both coordinates
                X = X.copy()
                k = min(len(X) // 2, 6)
                X[:k] = np.array([[0.0, 0.4], [0.3, 0.0], [0.0, 0.0], [1.0, 0.6], [0.7, 1.0], [1.0, 1.0]])[:k]
                A = as_array(X, kind)
                cls.append('boundary-rows')
            for meth in ('cdf', 'pdf', 'partial_derivative', 'log_probability_density'):
                r1, r2 = run_twice(getattr(m, meth), [A], '%s.%s' % (fam, meth), ['points'],
                                   allow=(ValueError, ZeroDivisionError, FloatingPointError) if edge else ())
                same_result(r1, r2, '%s.%s' % (fam, meth))
            y, v = as_array(X0[:, 0], kind if kind != 'ndarray_f_ro' else 'ndarray_ro'), as_array(X0[:, 1], kind if kind != 'ndarray_f_ro' else 'ndarray_ro')
            r1, r2 = run_twice(m.percent_point, [y, v], '%s.percent_point' % fam, ['y', 'v'])
            same_result(r1, r2, fam + '.percent_point')
    elif name in ('gauss_fit', 'gauss_query', 'gauss_sample_cond', 'vine_fit', 'vine_likelihood'):
        Z = rs.normal(size=(n, d))
        Z[:, 1:] += 0.7 * Z[:, :1]
        names = ['c%d' % j for j in range(d)] if case['seed'] % 2 else list(range(d))
        df = pd.DataFrame(Z.copy(), columns=names)
        if case['seed'] % 3 == 0:
            # columns of another numeric dtype (counts, single precision): the caller's frame keeps them
            df[names[0]] = np.round(df[names[0]] * 10).astype('int64')
            df[names[-1]] = df[names[-1]].astype('float32')
            Z = df.to_numpy().astype(float)
            cls.append('mixed-dtypes')
        if name == 'gauss_fit':
            kind = cont if cont in ('frame', 'ndarray', 'ndarray_f', 'ndarray_ro', 'ndarray_f_ro') else 'frame'
            arg = df if kind == 'frame' else as_array(Z, kind)
            cls.append('container:' + kind)

            def fit_obs(a):
                m = GaussianMultivariate(distribution=GaussianUnivariate)
                m.fit(a)
                return m.to_dict()

            r1, r2 = run_twice(fit_obs, [arg], 'GaussianMultivariate.fit(%s)' % kind, ['training table'])
            same_result(r1, r2, 'GaussianMultivariate.fit')
        elif name == 'gauss_query':
            m = GaussianMultivariate(distribution=GaussianUnivariate)
            m.fit(df.copy())
            kind = cont if cont in ('frame', 'ndarray', 'ndarray_ro', 'ndarray_f_ro', 'series') else 'frame'
            Q = Z[:4] + 0.1
            arg = pd.DataFrame(Q.copy(), columns=names[::-1] if d > 1 else names) if kind == 'frame' else (
                pd.Series(Q[0].copy(), index=names) if kind == 'series' else as_array(Q, kind))
            if kind == 'frame':
                arg = pd.DataFrame({c: Q[:, names.index(c)] for c in names[::-1]})
            cls.append('container:' + kind)
            r1, r2 = run_twice(m.probability_density, [arg], 'GaussianMultivariate.probability_density(%s)' % kind, ['query'])
            same_result(r1, r2, 'probability_density', rtol=1e-12)
            r1, r2 = run_twice(m.cumulative_distribution, [arg], 'GaussianMultivariate.cumulative_distribution(%s)' % kind, ['query'])
            same_result(r1, r2, 'cumulative_distribution', atol=2e-4)
        elif name == 'gauss_sample_cond':
            m = GaussianMultivariate(distribution=GaussianUnivariate, random_state=5)
            m.fit(df.copy())
            keys = names[::-1][:max(1, d - 1)]
            cond = {k: float(rs.normal()) for k in keys} if case['cond'] == 'dict' else pd.Series([float(rs.normal()) for _ in keys], index=keys)
            cls.append('conditions:' + case['cond'])

            def samp(c):
                m.set_random_state(5)
                return m.sample(6, conditions=c)

            r1, r2 = run_twice(samp, [cond], 'GaussianMultivariate.sample(conditions=%s)' % case['cond'], ['conditions'])
            same_result(r1, r2, 'sample(conditions)')
        elif name == 'vine_fit':
            def fit_obs(a):
                v = VineCopula(case['vine_type'])
                v.fit(a)
                return [[(int(e.L), int(e.R), sorted(int(x) for x in e.D), e.name.name, float(e.theta)) for e in t.edges] for t in v.trees]

            r1, r2 = run_twice(fit_obs, [df], 'VineCopula(%r).fit' % case['vine_type'], ['training table'], allow=(ValueError,))
            same_result(r1, r2, 'VineCopula.fit')
        else:
            v = VineCopula(case['vine_type'])
            v.fit(df.copy())
            u = as_array(np.clip(rs.uniform(size=(1, d)), 0.05, 0.95), 'ndarray_ro' if cont != 'ndarray' else 'ndarray')
            r1, r2 = run_twice(v.get_likelihood, [u], 'VineCopula.get_likelihood', ['u'])
            same_result(r1, r2, 'get_likelihood')
    elif name in ('bisect', 'chandrupatla'):
        lanes = n
        r = rs.uniform(-5, 5, size=lanes)
        lo = r - rs.uniform(0.1, 3, size=lanes)
        hi = r + rs.uniform(0.1, 3, size=lanes)
        lo0, hi0 = lo.copy(), hi.copy()
        solver = getattr(optimize, name)
        # writable arrays: contents must be untouched
        r1, r2 = run_twice(lambda a, b: solver(lambda x: x - r, a, b), [lo, hi], name, ['xmin', 'xmax'])
        same_result(r1, r2, name, atol=1e-7)
        require(np.array_equal(lo, lo0) and np.array_equal(hi, hi0), '%s changed xmin/xmax' % name, tag='input-mutated')
        # read-only arrays must be accepted
        a, b = as_array(lo0, 'ndarray_ro'), as_array(hi0, 'ndarray_ro')
        value(solver, lambda x: x - r, a, b, what=name + ' with read-only brackets')
        cls.append('root-finder')
    else:
        fn = getattr(datasets, case['dataset'])
        seed_obj = np.random.RandomState(case['seed'] % (2 ** 32))
        r1, r2 = run_twice(lambda s: fn(n, s), [seed_obj], 'datasets.%s(size, RandomState)' % case['dataset'], ['seed'])
        same_result(r1, r2, case['dataset'])
        cls.append('dataset:' + case['dataset'])
    return {'nontrivial': reused, 'classes': cls}


# ---- (b) plots ------------------------------------------------------------------------------------------

def plot_strategy():
    return st.fixed_dictionaries({
        'fn': st.sampled_from(['scatter_2d', 'scatter_3d', 'compare_2d', 'compare_3d']),
        'n_real': st.integers(1, 30), 'n_synth': st.integers(1, 30), 'empty': st.sampled_from([None, None, None, 'real', 'synth']), 'extra_cols': st.integers(0, 2), 'seed': S.SEEDS,
        'columns': st.sampled_from(['default', 'explicit', 'explicit-permuted', 'tuple', 'wrong-count']),
        'dups': st.booleans(), 'title': st.sampled_from([None, 'a title']), 'index': st.sampled_from(['default', 'default', 'offset', 'shuffled', 'string', 'duplicated']),
    })


def multiset(rows):
    from collections import Counter

    return Counter(tuple(float(v) for v in r) for r in rows)


def oracle_plot(case):
    import pandas as pd
    from copulas import visualization as viz

    rs = np.random.RandomState(case['seed'])
    dim = 2 if case['fn'].endswith('2d') else 3
    compare = case['fn'].startswith('compare')
    ncols = dim + (case['extra_cols'] if case['columns'] not in ('default',) else 0)
    names = ['x%d' % j for j in range(ncols)]

    def frame(n):
        X = np.round(rs.normal(size=(n, ncols)), 3)
        if case['dups'] and n >= 2:
            X[-1] = X[0]
        return pd.DataFrame(X, columns=names)

    real, synth = frame(case['n_real']), frame(case['n_synth'])
    if compare and case.get('empty') == 'real':         # one of the two tables may have no rows (a filter that matched nothing)
        real = real.iloc[:0].copy()
    elif compare and case.get('empty') == 'synth':
        synth = synth.iloc[:0].copy()
    style = case.get('index', 'default')
    for fr_ in (real, synth):          # frames as they come out of a split / filter / join
        n_ = len(fr_)
        if style == 'offset':
            fr_.index = np.arange(n_) + 40
        elif style == 'shuffled':
            fr_.index = rs.permutation(n_)
        elif style == 'string':
            fr_.index = ['r%d' % i for i in range(n_)]
        elif style == 'duplicated':
            fr_.index = np.zeros(n_, dtype=int)
    mode = case['columns']
    if mode == 'default':
        cols = None
        used = names[:dim]
    elif mode == 'explicit':
        cols = list(names[:dim])
        used = list(cols)
    elif mode == 'explicit-permuted':
        cols = list(rs.permutation(names)[:dim])
        used = list(cols)
    elif mode == 'tuple':
        cols = list(names[:dim])
        used = list(cols)
    else:
        cols = list(names[:dim - 1]) if rs.uniform() < 0.5 or ncols <= dim else list(names[:dim + 1])
        used = None
    fn = getattr(viz, case['fn'])
    args = [real, synth] if compare else [real]
    cols_before = copy.deepcopy(cols)
    snaps = [(a.copy(), list(a.columns)) for a in args]
    kind, fig = call(fn, *args, columns=cols, title=case['title'], allow=(Exception,) if used is None else (), what='visualization.%s' % case['fn'])
    require(cols == cols_before, 'visualization.%s modified the caller\'s columns list: %r -> %r' % (case['fn'], cols_before, cols), tag='input-mutated')
    for a, (b, bc) in zip(args, snaps):
        require(list(a.columns) == bc and a.equals(b), 'visualization.%s modified the data frame it was given' % case['fn'], tag='input-mutated')
    if used is None:
        # a wrong number of columns is outside the property (the library raises ValueError or IndexError): only the
        # no-mutation clause above applies
        return {'nontrivial': True, 'classes': ['fn:' + case['fn'], 'columns:' + mode]}
    require(kind == 'ok', 'visualization.%s(columns=%r) raised %s' % (case['fn'], cols, fig), tag='plot-raised')
    # second call with the same objects
    kind2, fig2 = call(fn, *args, columns=cols, title=case['title'], allow=(), what='visualization.%s (second call, same columns list)' % case['fn'])
    expected = {'Real': multiset(real[used].to_numpy())}
    if compare:
        expected['Synthetic'] = multiset(synth[used].to_numpy())
    for f in (fig, fig2):
        got = {}
        for tr in f.data:
            pts = zip(tr.x, tr.y, tr.z) if dim == 3 else zip(tr.x, tr.y)
            nm = tr.name if tr.name else 'Real'
            got.setdefault(nm, multiset([]))
            got[nm].update(multiset(pts))
        nonempty = {nm for nm in expected if expected[nm]}
        require(nonempty <= set(got) <= set(expected), 'visualization.%s: traces %r, expected %r' % (case['fn'], sorted(got), sorted(nonempty)), tag='trace-labels')
        for nm in expected:
            got.setdefault(nm, multiset([]))           # a table without rows needs no trace
            require(got[nm] == expected[nm], 'visualization.%s(columns=%r): the %r trace does not show exactly the rows of the %s frame (%d plotted, %d rows; first difference %r)'
                    % (case['fn'], cols, nm, nm.lower(), sum(got[nm].values()), sum(expected[nm].values()),
                       list((got[nm] - expected[nm]).items())[:1] or list((expected[nm] - got[nm]).items())[:1]), tag='plot-data')
    return {'nontrivial': cols is not None, 'classes': ['fn:' + case['fn'], 'columns:' + mode, 'index:' + style] + (['empty:' + case['empty']] if compare and case.get('empty') else [])}


SUBS = [
    Sub('inputs_unmodified', call_strategy(), oracle_call, quick=480, thorough=16000),
    Sub('plots', plot_strategy(), oracle_plot, quick=240, thorough=8000),
]
