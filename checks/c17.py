"""C17 - vine pair-copula data flow, likelihood and sampling are coherent."""

import numpy as np
from hypothesis import strategies as st

from checks import c16
from vlib import poison
from vlib import stats as vs
from vlib import strategies as S
from vlib.harness import Sub, Violation, call, require, target, value
from vlib.refs import archimedean as ref
from vlib.refs import vine as V

PROPERTY_ID = 'C17'
LEVEL = 'exploration'
RULE = ('tables with 2..6 columns (as C16) x vine type x truncation 1..6 x u in (0,1)^d (uniform and edge-hugging) x seeds. '
        'Oracle: variable-identity recursion over the fitted vine read from to_dict(): for each edge (L,R|D) the inputs are the '
        'pseudo-observations of (L|D) and (R|D); the edge copula must be what the public select_copula returns on them, the '
        'attached pseudo-observations must be the reference h-functions (own float64 closed forms) strictly inside (0,1); '
        'get_likelihood(u) must equal the sum of log reference densities (mpmath) along the same recursion, be repeatable, '
        'survive a dict round trip and not change when np.empty buffers are poisoned with NaN / 0.37; sample(n): schema, no NaN; '
        'for 2 columns DKW bands against the fitted KDE marginals and the Hoeffding band on Kendall tau. Non-trivial: >= 3 '
        'trees (parents with different conditioning sets first meet in tree 3); distinct = distinct generated case.')
ASSUMPTIONS = [
    'pair-copula families/parameters and pseudo-observations are read from the public to_dict()',
    'd=2 sampling bands (>= 0.03) absorb the documented clamp of conditional uniforms to [EPS, 0.99]',
]
EPS32 = float(np.finfo(np.float32).eps)


def fam_of(name):
    return getattr(name, 'name', str(name)).lower()


def strategy():
    @st.composite
    def cases(draw):
        c = draw(c16.vine_case(2, 6, 30, 200))
        c['truncated'] = draw(st.one_of(st.integers(1, 6), st.just(6), st.just(3)))
        d = c['table']['corr']['d']
        c['u'] = draw(st.lists(S.interior_coord(1e-3, 1 - 1e-3), min_size=d, max_size=d))
        return c

    return cases()


def h_with_correction(fam, theta, a, b):
    out = ref.h_f64(fam, theta, a, b)
    out = np.array(out, dtype=float)
    out[out == 0] = EPS32
    out[out == 1] = 1 - EPS32
    return out


def oracle_flow(case):
    from copulas.bivariate import select_copula

    df = c16.build(case)
    d = df.shape[1]
    vine, kind, err = c16.fit_vine(case, df)
    if kind == 'exc':
        why = c16.degenerate(df)
        require(why is not None, 'VineCopula.fit raised ValueError(%s) on a table without degenerate dependence' % str(err)[:200], tag='fit-raised')
        return {'nontrivial': False, 'classes': ['rejected:' + why]}
    vd = value(vine.to_dict, what='to_dict')
    U0 = np.asarray(vd['u_matrix'], dtype=float)
    require(U0.shape == (len(df), d), 'u_matrix shape %s' % (U0.shape,), tag='u-matrix')
    # first-level pseudo-observations are the fitted KDE marginals of the columns
    for j in range(d):
        uj = np.asarray(value(vine.unis[j].cdf, df.iloc[:, j].to_numpy(), what='cdf'), dtype=float)
        require(np.allclose(U0[:, j], uj, rtol=0, atol=1e-12), 'u_matrix column %d is not the marginal CDF of the column' % j, tag='u-matrix')
    refs = {(j, frozenset()): U0[:, j] for j in range(d)}
    worst = 0.0
    for k, tree in enumerate(vd['trees'], start=1):
        new = {}
        for e in tree['edges']:
            L, R, D = V.edge_key(e)
            require((L, D) in refs and (R, D) in refs, 'tree %d edge (%d,%d|%r): its inputs (%d|%r), (%d|%r) are not produced by tree %d'
                    % (k, L, R, sorted(D), L, sorted(D), R, sorted(D), k - 1), tag='data-flow')
            a, b = refs[(L, D)], refs[(R, D)]
            fam, theta = fam_of(e['name']), float(e['theta'])
            ks, sel = call(select_copula, np.column_stack((a, b)), allow=(ValueError,), what='select_copula')
            if ks == 'ok':
                sfam, sth = type(sel).__name__.lower(), float(sel.theta)
                # Frank's theta comes from a least-squares solve (xtol/ftol 1e-8): the column order inside the vine may differ
                # from (L, R), which changes the iterates at the solver's tolerance
                ttol = 1e-6 if fam == 'frank' else 1e-9
                require(sfam == fam and abs(sth - theta) <= ttol * max(1, abs(theta)),
                        'tree %d edge (%d,%d|%r) carries %s(theta=%r) but select_copula on its two input columns returns %s(theta=%r)'
                        % (k, L, R, sorted(D), fam, theta, sfam, sth), tag='edge-copula', detail={'tree': k})
            Ue = np.asarray(e['U'], dtype=float)
            require(Ue.shape == (2, len(df)), 'tree %d edge (%d,%d): U has shape %s' % (k, L, R, Ue.shape), tag='U-shape')
            require(np.all((Ue > 0) & (Ue < 1)), 'tree %d edge (%d,%d|%r): pseudo-observations not strictly inside (0,1): min %r max %r'
                    % (k, L, R, sorted(D), Ue.min(), Ue.max()), tag='U-range')
            if np.isfinite(theta):
                hl = h_with_correction(fam, theta, a, b)
                hr = h_with_correction(fam, theta, b, a)
                # "0/1 corrected to EPS/1-EPS": compare after clipping both sides into [EPS, 1-EPS]
                clip = lambda z: np.clip(z, EPS32, 1 - EPS32)
                e0, e1 = np.max(np.abs(clip(Ue[0]) - clip(hl))), np.max(np.abs(clip(Ue[1]) - clip(hr)))
                worst = max(worst, e0, e1)
                tol = 1e-9 + (64 * 2.2e-16 * np.exp(min(abs(theta), 700)) if fam == 'frank' else 0)
                require(e0 <= tol and e1 <= tol, 'tree %d edge (%d,%d|%r) %s(theta=%r): attached pseudo-observations differ from the h-functions of its inputs by %.3g / %.3g'
                        % (k, L, R, sorted(D), fam, theta, e0, e1), tag='h-propagation', detail={'tree': k})
            new[(L, D | {R})] = Ue[0]
            new[(R, D | {L})] = Ue[1]
        refs = new
    target(worst / 1e-9, label='h err/tol')
    ntrees = len(vd['trees'])
    return {'nontrivial': ntrees >= 3, 'classes': ['type:' + case['vine_type'], 'd=%d' % d, 'trees=%d' % ntrees]}


def ref_loglik(vd, u):
    import mpmath as mp

    refs = {(j, frozenset()): float(u[j]) for j in range(len(u))}
    total = mp.mpf(0)
    margin = 1.0
    for tree in vd['trees']:
        new = {}
        for e in tree['edges']:
            L, R, D = V.edge_key(e)
            if (L, D) not in refs or (R, D) not in refs:
                raise Violation('likelihood recursion: inputs of edge (%d,%d|%r) are not available' % (L, R, sorted(D)), tag='data-flow')
            a, b = refs[(L, D)], refs[(R, D)]
            fam, theta = fam_of(e['name']), float(e['theta'])
            margin = min(margin, a, b, 1 - a, 1 - b)
            if not (0 < a < 1 and 0 < b < 1):
                return None, 0.0
            total += mp.log(ref.pdf_mp(fam, theta, a, b))
            new[(L, D | {R})] = float(ref.h_mp(fam, theta, a, b))
            new[(R, D | {L})] = float(ref.h_mp(fam, theta, b, a))
        refs = new
    return float(total), margin


def oracle_likelihood(case):
    from copulas.multivariate import VineCopula

    df = c16.build(case)
    d = df.shape[1]
    vine, kind, err = c16.fit_vine(case, df)
    if kind == 'exc':
        return {'nontrivial': False, 'classes': ['rejected']}
    vd = value(vine.to_dict, what='to_dict')
    if any(not np.isfinite(float(e['theta'])) for t in vd['trees'] for e in t['edges']):
        return {'nontrivial': False, 'classes': ['infinite-theta']}
    u = np.array(case['u'], dtype=float)[None, :]
    l1 = float(value(vine.get_likelihood, u.copy(), what='get_likelihood'))
    l2 = float(value(vine.get_likelihood, u.copy(), what='get_likelihood'))
    require(l1 == l2 or (np.isnan(l1) and np.isnan(l2)), 'get_likelihood is not repeatable: %r then %r' % (l1, l2), tag='likelihood-repeat')
    want, margin = ref_loglik(vd, u[0])
    require(not np.isnan(l1), 'get_likelihood(u) is NaN for the interior point u=%r (reference log-likelihood %r)' % (u[0].tolist(), want), tag='likelihood-nan')
    conditioned = 'well-conditioned' if margin >= 1e-6 else 'ill-conditioned'
    # the pair-copula functions are only specified (and checked, C06-C08) for |tau| <= 0.8; beyond that Frank's density loses
    # eps*exp(theta*min(u,v)) digits (3.5e-6 at theta=33), so the sharp comparison is restricted to that domain
    limits = {'clayton': 8.0, 'gumbel': 5.0, 'frank': 18.2}
    if any(abs(float(e['theta'])) > limits[fam_of(e['name'])] for t in vd['trees'] for e in t['edges']):
        conditioned = 'theta-outside-pair-copula-domain'
        margin = 0.0
    if want is not None and np.isfinite(want):
        if margin >= 1e-6:
            # every propagated conditional CDF stays 1e-6 away from 0/1: float64 must reproduce the exact recursion
            require(np.isfinite(l1) and abs(l1 - want) <= 1e-6 * (1 + abs(want)), 'get_likelihood(u)=%r but the sum of log pair-copula densities along the vine is %r (u=%r)'
                    % (l1, want, u[0].tolist()), tag='likelihood-reference')
            target(abs(l1 - want) / (1e-6 * (1 + abs(want))), label='loglik err/tol')
        elif want > -300:
            require(np.isfinite(l1), 'get_likelihood(u)=%r for u=%r although the log-likelihood is finite (%r)' % (l1, u[0].tolist(), want), tag='likelihood-finite')
    # dict round trip
    twin = value(VineCopula.from_dict, vd, what='from_dict')
    # the same point as a labelled pandas row whose labels are in another order: refused, or the same value
    import pandas as pd

    names_ = list(df.columns)
    rot = names_[1:] + names_[:1]
    for label_, arg_ in (('Series', pd.Series({c: float(u[0, names_.index(c)]) for c in rot})),
                         ('one-row DataFrame', pd.DataFrame([[float(u[0, names_.index(c)]) for c in rot]], columns=rot))):
        kd_, got_ = call(vine.get_likelihood, arg_, allow=(Exception,), what='get_likelihood(%s)' % label_)
        if kd_ == 'ok':
            got_ = float(np.ravel(np.asarray(got_, dtype=float))[0])
            require(got_ == l1 or abs(got_ - l1) <= 1e-9 * (1 + abs(l1)) or (np.isnan(got_) and np.isnan(l1)),
                    'get_likelihood of the same point given as a %s with labels %r is %r, as an array in training order %r' % (label_, rot, got_, l1),
                    tag='likelihood-labelled-row')
    l3 = float(value(twin.get_likelihood, u.copy(), what='get_likelihood(round-trip)'))
    require(l3 == l1 or abs(l3 - l1) <= 1e-12 * (1 + abs(l1)), 'get_likelihood after from_dict(to_dict): %r, before: %r' % (l3, l1), tag='likelihood-roundtrip')
    # poisoned np.empty
    outs = []
    for p in (np.nan, 0.37):
        with poison.poisoned(p):
            outs.append(float(value(vine.get_likelihood, u.copy(), what='get_likelihood(poisoned)')))
    require(all(o == l1 for o in outs), 'get_likelihood depends on uninitialised memory: %r normally, %r with np.empty poisoned by NaN / 0.37' % (l1, outs),
            tag='uninitialised')
    ntrees = len(vd['trees'])
    return {'nontrivial': ntrees >= 3, 'classes': ['type:' + case['vine_type'], 'd=%d' % d, 'trees=%d' % ntrees, conditioned]}


def sample_strategy(n_big):
    @st.composite
    def cases(draw):
        c = draw(c16.vine_case(2, 6, 40, 150))
        c['round'] = None
        two = draw(st.booleans())
        if two:
            c['table']['corr']['d'] = 2
            c['table']['marginals'] = c['table']['marginals'][:2]
            c['flip'] = c['flip'][:2]
        c['seed'] = draw(S.SEEDS)
        c['n'] = n_big if two else draw(st.sampled_from([1, 2, 7, 25]))
        return c

    return cases()


def oracle_sample(case):
    import pandas as pd

    df = c16.build(case)
    d = df.shape[1]
    names = list(df.columns)
    vine, kind, err = c16.fit_vine(case, df, random_state=case['seed'])
    if kind == 'exc':
        return {'nontrivial': False, 'classes': ['rejected']}
    n = case['n']
    out = value(vine.sample, n, what='VineCopula.sample')
    require(isinstance(out, pd.DataFrame) and len(out) == n, 'sample(%d) returned %d rows' % (n, len(out)), tag='rows')
    require(list(out.columns) == names, 'sample columns %r, training columns %r' % (list(out.columns), names), tag='columns')
    X = out.to_numpy().astype(float)
    require(not np.isnan(X).any(), 'sample contains missing values', tag='nan')
    cls = ['type:' + case['vine_type'], 'd=%d' % d]
    if d == 2 and n >= 1000:
        eps = vs.dkw_eps(n)
        for j in range(2):
            uni = vine.unis[j]
            dist = vs.ks_excess_at_resolution(X[:, j], lambda x, _u=uni: np.asarray(_u.cdf(np.asarray(x, dtype=float)), dtype=float), vs.resolution_of(uni))
            require(dist <= eps + 0.011, 'd=2: sampled column %r does not follow its fitted marginal: KS %.4f > %.4f' % (names[j], dist, eps + 0.011), tag='marginal')
        e = value(vine.to_dict, what='to_dict')['trees'][0]['edges'][0]
        fam, theta = fam_of(e['name']), float(e['theta'])
        if np.isfinite(theta):
            tt = ref.tau_theory(fam, theta)
            fin = np.isfinite(X[:, 0]) & np.isfinite(X[:, 1])
            tn = vs.tau_a(X[fin, 0], X[fin, 1])
            band = vs.tau_band_bernstein(int(fin.sum()), tt) + 0.03
            require(abs(tn - tt) <= band, 'd=2: Kendall tau of the sample %.3f, selected %s(theta=%.4g) implies %.3f (band %.3f)' % (tn, fam, theta, tt, band),
                    tag='dependence')
        cls.append('d=2-law')
    return {'nontrivial': d >= 3 or n >= 1000, 'classes': cls}


SUBS = [
    Sub('data_flow', strategy(), oracle_flow, quick=480, thorough=16000),
    Sub('likelihood', strategy(), oracle_likelihood, quick=320, thorough=9600),
    Sub('sampling', sample_strategy(3000), oracle_sample, quick=48, thorough=0, shrink=False),
    Sub('sampling_large', sample_strategy(12000), oracle_sample, quick=0, thorough=320, shrink=False),
]
