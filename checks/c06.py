"""C06 - Clayton, Frank and Gumbel CDFs are genuine Archimedean copulas."""

import math

import numpy as np
from hypothesis import strategies as st
from vlib.harness import call, target

from vlib import strategies as S
from vlib.harness import Sub, Violation, require, value
from vlib.refs import archimedean as ref

PROPERTY_ID = 'C06'
LEVEL = 'exploration'
RULE = ('family x theta (|tau|<=0.8: Clayton (0,8], Gumbel [1,5] with theta=1 exactly in >=5%, Frank 0<|theta|<=18.2, '
        'log-uniform and uniform mixtures) x batches of 1..40 points of [0,1]^2 drawn from a mixture of uniform, '
        'boundary-hugging (1e-12..1e-1 from an edge), exact 0/1, diagonal and denormal-tiny coordinates; rectangles '
        'with side 10^U(-6,0); pairs theta1<theta2. Oracles: copula axioms, 50-digit mpmath reference CDF, generator '
        'identity, theta ordering, row independence. Non-trivial: theta not within 1e-9 of independence and at least '
        'one point strictly inside the unit square; distinct = distinct generated case.')
ASSUMPTIONS = [
    'mpmath 50-digit closed forms (Nelsen table 4.1) are the reference copulas',
    'Frank tolerance tol_F = 1e-12 + 32*eps*(1+exp|theta|)/|theta| (documented cancellation of exp(-theta*u)-1); '
    'Clayton/Gumbel 1e-12',
    'row independence is required to 1e-13 relative (numpy SIMD kernels may differ in the last ulp between '
    'array positions), not bitwise',
]

EPS = np.finfo(float).eps


def tol_F(family, theta):
    if family == 'frank':
        return 1e-12 + 32 * EPS * (1 + math.exp(abs(theta))) / abs(theta)
    return 1e-12


def cdf(cop, pts):
    X = np.array(pts, dtype=float).reshape(-1, 2)
    out = value(cop.cumulative_distribution, X, what='%s.cumulative_distribution' % type(cop).__name__)
    out = np.asarray(out, dtype=float)
    require(out.shape == (len(X),), 'cumulative_distribution returned shape %s for %d rows' % (out.shape, len(X)))
    return out


def point_classes(pts):
    out = set()
    for u, v in pts:
        if u in (0.0, 1.0) or v in (0.0, 1.0):
            out.add('exact-boundary')
        elif min(u, v, 1 - u, 1 - v) < 1e-3:
            out.add('boundary-hugging')
        else:
            out.add('interior')
    return sorted(out)


def is_nontrivial(family, theta, pts):
    indep = (family == 'gumbel' and abs(theta - 1) < 1e-9) or (family != 'gumbel' and abs(theta) < 1e-9)
    return (not indep) and any(0 < u < 1 and 0 < v < 1 for u, v in pts)


def axioms_strategy():
    @st.composite
    def cases(draw):
        fam, th = draw(S.family_theta())
        pts = draw(S.unit_points(1, 40))
        return {'family': fam, 'theta': th, 'pts': pts, 'perm_seed': draw(st.integers(0, 10 ** 6)),
                'probe': draw(st.integers(0, len(pts) - 1))}

    return cases()


def oracle_axioms(case):
    fam, th, pts = case['family'], case['theta'], [list(p) for p in case['pts']]
    cop = S.make_copula(fam, th)
    S.interleave_sibling(cop, fam, th, pts)        # two live copulas of one family: nothing is remembered across them
    tol = tol_F(fam, th)
    U = np.array([p[0] for p in pts])
    V = np.array([p[1] for p in pts])
    n = len(pts)
    C = cdf(cop, pts)
    require(np.all(np.isfinite(C)), '%s(theta=%r): non-finite C at %r' % (fam, th, [pts[i] for i in np.where(~np.isfinite(C))[0][:3]]),
            tag='nonfinite')
    # grounded and uniform margins, evaluated as one batch mixing all projections
    proj = [[u, 0.0] for u in U] + [[0.0, v] for v in V] + [[u, 1.0] for u in U] + [[1.0, v] for v in V]
    P = cdf(cop, proj)
    require(np.all(P[:2 * n] == 0), '%s(theta=%r): C(u,0) or C(0,v) != 0: %r' % (fam, th, P[:2 * n][P[:2 * n] != 0][:3]),
            tag='grounded')
    e1 = np.abs(P[2 * n:3 * n] - U)
    e2 = np.abs(P[3 * n:] - V)
    require(np.all(e1 <= tol) and np.all(e2 <= tol), '%s(theta=%r): margins C(u,1)=u / C(1,v)=v off by %.3g (tol %.3g)'
            % (fam, th, max(e1.max(), e2.max()), tol), tag='margins')
    # Frechet bounds
    lo = np.maximum(U + V - 1, 0)
    hi = np.minimum(U, V)
    bad = (C < lo - tol) | (C > hi + tol)
    require(not bad.any(), '%s(theta=%r): Frechet bounds violated at %r: C=%r not in [%r,%r]'
            % (fam, th, [pts[i] for i in np.where(bad)[0][:2]], C[bad][:2], lo[bad][:2], hi[bad][:2]), tag='frechet')
    # symmetry
    Cs = cdf(cop, [[v, u] for u, v in pts])
    sym = np.abs(C - Cs)
    require(np.all(sym <= 4 * EPS * np.maximum(np.abs(C), 1e-300) + (tol if fam == 'frank' else 0)),
            '%s(theta=%r): C(u,v) != C(v,u) by %.3g at %r' % (fam, th, sym.max(), pts[int(sym.argmax())]), tag='symmetry')
    # reference
    Cref = ref.cdf_ref(fam, th, U, V)
    err = np.abs(C - Cref)
    j = int(err.argmax())
    require(err[j] <= tol, '%s(theta=%r): C(%r,%r)=%r but reference %r (diff %.3g, tol %.3g)'
            % (fam, th, U[j], V[j], C[j], Cref[j], err[j], tol), tag='reference',
            detail={'u': float(U[j]), 'v': float(V[j])})
    target(float(err[j] / tol), label='cdf err/tol')
    # row independence: alone and permuted
    k = case['probe'] % n
    alone = cdf(cop, [pts[k]])[0]
    rtol = 1e-13 * abs(C[k]) + 1e-300
    require(abs(alone - C[k]) <= rtol, '%s(theta=%r): row %d alone gives %r, in the batch %r' % (fam, th, k, alone, C[k]),
            tag='row-independence')
    perm = np.random.RandomState(case['perm_seed']).permutation(n)
    Cp = cdf(cop, [pts[i] for i in perm])
    require(np.all(np.abs(Cp - C[perm]) <= 1e-13 * np.abs(C[perm]) + 1e-300),
            '%s(theta=%r): permuting the batch changes row results' % (fam, th), tag='row-independence')
    # the same rows in another container (a list of rows - also of exactly two rows - or a DataFrame): the method may
    # refuse the container, but when it answers, row i of the answer is C(u_i, v_i)
    import pandas as pd

    two = [list(map(float, pts[k])), list(map(float, pts[(k + 1) % n]))]
    want_two = np.array([C[k], C[(k + 1) % n]])
    for label, arg, want in (('a list of two rows', two, want_two), ('a list of rows', [list(map(float, p)) for p in pts], C),
                             ('a DataFrame', pd.DataFrame(np.array(pts, dtype=float), columns=['u', 'v']), C)):
        kd_, got = call(cop.cumulative_distribution, arg, allow=(Exception,), what='cumulative_distribution')
        if kd_ == 'exc':
            continue
        got = np.ravel(np.asarray(got, dtype=float))
        require(got.shape == want.shape and np.all(np.abs(got - want) <= 1e-13 * np.abs(want) + 1e-300),
                '%s(theta=%r): cumulative_distribution of %s gives %r, the same rows as an array give %r' % (fam, th, label, got[:4], want[:4]),
                tag='container')
    return {'nontrivial': is_nontrivial(fam, th, pts), 'classes': [fam] + point_classes(pts) + (['theta=1'] if (fam == 'gumbel' and th == 1) else [])}


def rect_strategy():
    @st.composite
    def cases(draw):
        fam, th = draw(S.family_theta())
        rects = draw(st.lists(st.tuples(S.unit_coord(), S.unit_coord(), st.floats(-6, 0), st.floats(-6, 0)).map(list),
                              min_size=1, max_size=20))
        return {'family': fam, 'theta': th, 'rects': rects}

    return cases()


def oracle_rect(case):
    fam, th = case['family'], case['theta']
    cop = S.make_copula(fam, th)
    tol = tol_F(fam, th)
    pts = []
    rs = []
    for u1, v1, eu, ev in case['rects']:
        u2 = min(1.0, u1 + 10.0 ** eu)
        v2 = min(1.0, v1 + 10.0 ** ev)
        rs.append((u1, v1, u2, v2))
        pts += [[u2, v2], [u2, v1], [u1, v2], [u1, v1]]
    C = cdf(cop, pts).reshape(-1, 4)
    vol = C[:, 0] - C[:, 1] - C[:, 2] + C[:, 3]
    j = int(vol.argmin())
    require(vol[j] >= -4 * tol, '%s(theta=%r): rectangle %r has C-volume %.3g < 0' % (fam, th, rs[j], vol[j]), tag='2-increasing')
    # also monotone in each argument
    require(np.all(C[:, 0] >= C[:, 1] - 2 * tol) and np.all(C[:, 0] >= C[:, 2] - 2 * tol)
            and np.all(C[:, 1] >= C[:, 3] - 2 * tol) and np.all(C[:, 2] >= C[:, 3] - 2 * tol),
            '%s(theta=%r): C not non-decreasing in an argument' % (fam, th), tag='monotone')
    pts0 = [[r[0], r[1]] for r in rs]
    return {'nontrivial': is_nontrivial(fam, th, pts0), 'classes': [fam]}


def gen_strategy():
    @st.composite
    def cases(draw):
        fam, th = draw(S.family_theta())
        return {'family': fam, 'theta': th, 'pts': draw(S.unit_points(1, 40, boundary=False)),
                'ts': draw(st.lists(S.unit_coord(boundary=False), min_size=2, max_size=30))}

    return cases()


def oracle_generator(case):
    fam, th, pts = case['family'], case['theta'], case['pts']
    cop = S.make_copula(fam, th)
    name = type(cop).__name__
    g1 = value(cop.generator, np.array([1.0]), what=name + '.generator')
    require(abs(float(np.ravel(g1)[0])) <= 1e-15, '%s(theta=%r): generator(1) = %r' % (fam, th, g1), tag='generator(1)')
    ts = np.sort(np.array([t for t in case['ts'] if 0 < t <= 1], dtype=float))
    if len(ts) >= 2:
        gt = np.asarray(value(cop.generator, ts, what=name + '.generator'), dtype=float)
        require(np.all(np.isfinite(gt) | (gt == np.inf)), '%s(theta=%r): generator NaN' % (fam, th))
        fin = np.isfinite(gt)
        d = np.diff(gt[fin])
        slack = 1e-12 * np.maximum(np.abs(gt[fin][:-1]), 1) + (1e-13 / abs(th) if fam == 'frank' else 0)
        require(np.all(d <= slack), '%s(theta=%r): generator not decreasing: %r at t=%r'
                % (fam, th, d[d > slack][:2], ts[fin][:-1][d > slack][:2]), tag='generator-monotone')
        require(np.all(gt[fin] >= -1e-12), '%s(theta=%r): generator negative' % (fam, th), tag='generator-sign')
    U = np.array([p[0] for p in pts])
    V = np.array([p[1] for p in pts])
    keep = (U > 0) & (V > 0) & (U < 1) & (V < 1)
    if keep.any():
        U, V = U[keep], V[keep]
        C = cdf(cop, np.column_stack((U, V)).tolist())
        ok = C > 0
        if ok.any():
            gC = np.asarray(value(cop.generator, C[ok], what=name + '.generator'), dtype=float)
            gu = np.asarray(value(cop.generator, U[ok], what=name + '.generator'), dtype=float)
            gv = np.asarray(value(cop.generator, V[ok], what=name + '.generator'), dtype=float)
            # the identity must hold for some C' within the CDF tolerance of the returned C (the generator
            # amplifies the documented absolute CDF error by |g'(C)| ~ 1/C near the origin)
            tol = tol_F(fam, th)
            Cok = C[ok]
            g_lo = np.asarray(value(cop.generator, np.minimum(Cok + tol, 1.0), what=name + '.generator'), dtype=float)
            Cm = Cok - tol
            g_hi = np.full(Cok.shape, np.inf)
            pos = Cm > 0
            if pos.any():
                g_hi[pos] = np.asarray(value(cop.generator, Cm[pos], what=name + '.generator'), dtype=float)
            fin = np.isfinite(gC) & np.isfinite(gu) & np.isfinite(gv) & np.isfinite(g_lo)
            if fin.any():
                s_ = (gu + gv)[fin]
                scale = (1 + gu + gv)[fin]
                tolg = 1e-9
                res = np.maximum(g_lo[fin] - s_, s_ - g_hi[fin])
                res = np.maximum(res, 0)
                j = int((res / scale).argmax())
                require(res[j] <= tolg * scale[j], '%s(theta=%r): generator(C(u,v))=%r but generator(u)+generator(v)=%r at (%r,%r), C=%r'
                        % (fam, th, gC[fin][j], s_[j], U[ok][fin][j], V[ok][fin][j], Cok[fin][j]), tag='archimedean-identity')
                target(float(res[j] / scale[j] / tolg), label='generator identity residual/tol')
    return {'nontrivial': is_nontrivial(fam, th, pts), 'classes': [fam]}


def order_strategy():
    @st.composite
    def cases(draw):
        fam = draw(st.sampled_from(S.FAMILIES))
        a = draw(S.theta_strategy(fam))
        b = draw(S.theta_strategy(fam))
        return {'family': fam, 'theta1': min(a, b), 'theta2': max(a, b), 'pts': draw(S.unit_points(1, 40))}

    return cases()


def oracle_order(case):
    fam, t1, t2, pts = case['family'], case['theta1'], case['theta2'], case['pts']
    c1, c2 = S.make_copula(fam, t1), S.make_copula(fam, t2)
    C1, C2 = cdf(c1, pts), cdf(c2, pts)
    tol = 2 * max(tol_F(fam, t1), tol_F(fam, t2))
    gap = C2 - C1
    j = int(gap.argmin())
    require(gap[j] >= -tol, '%s: C_theta=%r(%r) = %r < C_theta=%r = %r' % (fam, t2, pts[j], C2[j], t1, C1[j]), tag='theta-order')
    return {'nontrivial': t2 > t1 and is_nontrivial(fam, t2, pts), 'classes': [fam]}


SUBS = [
    Sub('axioms_reference', axioms_strategy(), oracle_axioms, quick=1600, thorough=240000, use_target=True),
    Sub('rectangles', rect_strategy(), oracle_rect, quick=1600, thorough=240000, use_target=True),
    Sub('generator', gen_strategy(), oracle_generator, quick=1600, thorough=240000, use_target=True),
    Sub('theta_order', order_strategy(), oracle_order, quick=1600, thorough=240000, use_target=True),
]
