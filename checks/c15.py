"""C15 - sampling is reproducible per model seed and never perturbs the global RNG."""

import copy

import numpy as np
from hypothesis import strategies as st

from checks import c03, c16
from vlib import models as M
from vlib import observe as O
from vlib import strategies as S
from vlib.harness import Sub, Violation, call, require, value

PROPERTY_ID = 'C15'
LEVEL = 'exploration'
RULE = ('model-based generated call histories (10..40 operations) over a pool of 2..4 fitted samplers drawn from every sampler '
        'class (each univariate family, the selecting Univariate wrapper, Clayton/Frank/Gumbel, GaussianMultivariate incl. '
        'conditional sampling, the three vines), each created with a seed given as int or RandomState (sometimes one RandomState object handed to several models), or unseeded. '
        'Operations: sample(i,n), conditional sample, set_random_state(i,s), np.random.seed(k), global draws, a sample call '
        'that raises, a bundled dataset generator. Invariants checked after every step: the full global RNG state is unchanged '
        'by operations on seeded models and by dataset generators; each seeded model\'s outputs equal those of an equal twin '
        'that executes only that model\'s own operations without interleaving (stream isolation, restart on re-seeding, '
        'exception safety); successive samples differ; unseeded sampling is reproducible through and advances the global state; '
        'dataset generators return exactly `size` rows and depend on (size, seed) only. Non-trivial: >= 2 models sampled in '
        'interleaved order with a global perturbation between two samples of one model; distinct = distinct generated history.')
ASSUMPTIONS = [
    'histories are single-threaded; the twin is a deep copy of the model taken right after fitting',
]

UNI = ['GaussianUnivariate', 'UniformUnivariate', 'BetaUnivariate', 'GammaUnivariate', 'StudentTUnivariate', 'LogLaplace',
       'TruncatedGaussian', 'GaussianKDE', 'Univariate']
DATASETS = ['sample_bivariate_age_income', 'sample_trivariate_xyz', 'sample_univariate_bernoulli', 'sample_univariate_bimodal',
            'sample_univariate_uniform', 'sample_univariate_normal', 'sample_univariate_degenerate', 'sample_univariate_exponential',
            'sample_univariate_beta', 'sample_univariates']


def model_spec():
    seed = st.one_of(st.fixed_dictionaries({'kind': st.sampled_from(['int', 'RandomState']), 'value': st.integers(0, 2 ** 32 - 1)}),
                     st.fixed_dictionaries({'kind': st.sampled_from(['int', 'RandomState']), 'value': st.integers(0, 2 ** 32 - 1)}),
                     # one RandomState *object* handed to several models (same small value => same object)
                     st.fixed_dictionaries({'kind': st.just('RandomState'), 'value': st.integers(1, 2), 'shared': st.just(True)}),
                     st.just({'kind': 'none'}))
    uni = st.fixed_dictionaries({'kind': st.just('univariate'), 'cls': st.sampled_from(UNI), 'data_seed': S.SEEDS, 'seed': seed})
    biv = st.fixed_dictionaries({'kind': st.just('bivariate'), 'family': st.sampled_from(S.FAMILIES), 'tau': st.floats(0.1, 0.8), 'seed': seed})
    gau = st.fixed_dictionaries({'kind': st.just('gaussian'), 'd': st.integers(2, 4), 'data_seed': S.SEEDS, 'kde': st.booleans(), 'seed': seed})
    vin = st.fixed_dictionaries({'kind': st.just('vine'), 'vine_type': st.sampled_from(['center', 'direct', 'regular']), 'd': st.integers(2, 4),
                                 'data_seed': S.SEEDS, 'seed': seed})
    return st.one_of(uni, uni, biv, gau, vin)


def op_strategy():
    return st.one_of(
        st.fixed_dictionaries({'op': st.just('sample'), 'i': st.integers(0, 3), 'n': st.integers(1, 12)}),
        st.fixed_dictionaries({'op': st.just('sample'), 'i': st.integers(0, 3), 'n': st.integers(1, 12)}),
        st.fixed_dictionaries({'op': st.just('sample'), 'i': st.integers(0, 3), 'n': st.integers(1, 12)}),
        st.fixed_dictionaries({'op': st.just('sample_cond'), 'i': st.integers(0, 3), 'n': st.integers(1, 8)}),
        st.fixed_dictionaries({'op': st.just('reseed'), 'i': st.integers(0, 3), 'seed': st.integers(0, 2 ** 32 - 1), 'as': st.sampled_from(['int', 'RandomState'])}),
        st.fixed_dictionaries({'op': st.just('global_seed'), 'k': st.integers(0, 2 ** 32 - 1)}),
        st.fixed_dictionaries({'op': st.just('global_draw'), 'n': st.integers(1, 5)}),
        st.fixed_dictionaries({'op': st.just('sample_raises'), 'i': st.integers(0, 3)}),
        st.fixed_dictionaries({'op': st.just('dataset'), 'name': st.sampled_from(DATASETS), 'size': st.integers(1, 40), 'seed': st.integers(0, 2 ** 31 - 1)}),
    )


def strategy():
    return st.fixed_dictionaries({'models': st.lists(model_spec(), min_size=2, max_size=4), 'ops': st.lists(op_strategy(), min_size=10, max_size=40),
                                  'global0': st.integers(0, 2 ** 32 - 1)})


_SHARED = {}


def make_seed(s):
    if s['kind'] == 'none':
        return None
    if s.get('shared'):
        # the same RandomState object for every model that asks for this value (reset per case by the oracle)
        if s['value'] not in _SHARED:
            _SHARED[s['value']] = np.random.RandomState(s['value'])
        return _SHARED[s['value']]
    return s['value'] if s['kind'] == 'int' else np.random.RandomState(s['value'])


def build(spec):
    import pandas as pd

    seed = make_seed(spec['seed'])
    k = spec['kind']
    if k == 'univariate':
        rs = np.random.RandomState(spec['data_seed'])
        data = rs.gamma(2.0, size=60) + 1.0
        m = M.uni_class(spec['cls'])(random_state=seed)
        if spec['cls'] == 'Univariate':
            m = M.uni_class('Univariate')(candidates=[M.uni_class('GaussianUnivariate'), M.uni_class('GammaUnivariate')], random_state=seed)
        m.fit(data)
        return m
    if k == 'bivariate':
        from vlib.refs.archimedean import theta_from_tau

        return S.make_copula(spec['family'], theta_from_tau(spec['family'], spec['tau']), tau=spec['tau'], random_state=seed)
    rs = np.random.RandomState(spec['data_seed'])
    d = spec['d']
    Z = rs.normal(size=(50, d))
    Z[:, 1:] += 0.8 * Z[:, :1]
    df = pd.DataFrame(Z, columns=['v%d' % j for j in range(d)])
    if k == 'gaussian':
        from copulas.multivariate import GaussianMultivariate
        from copulas.univariate import GaussianKDE, GaussianUnivariate

        m = GaussianMultivariate(distribution=GaussianKDE if spec['kde'] else GaussianUnivariate, random_state=seed)
        m.fit(df)
        return m
    from copulas.multivariate import VineCopula

    m = VineCopula(spec['vine_type'], random_state=seed)
    m.fit(df)
    return m


def same_state(a, b):
    return a[0] == b[0] and np.array_equal(a[1], b[1]) and a[2:] == b[2:]


def run_op(model, op):
    """Execute one model operation; returns a normalised outcome (value or exception marker)."""
    kind = O.kind_of(model)
    name = op['op']
    if name == 'sample':
        n = op['n'] if kind != 'vine' else min(op['n'], 2)
        return O._try(model.sample, n)
    if name == 'sample_cond':
        if kind == 'gaussian':
            return O._try(model.sample, op['n'], conditions={model.columns[0]: 0.25})
        return O._try(model.sample, min(op['n'], 2) if kind == 'vine' else op['n'])
    if name == 'sample_raises':
        if kind == 'gaussian':
            return O._try(model.sample, 3, conditions={'no-such-column': 1.0})
        if kind == 'vine':
            return O._try(model.sample, 'x')
        return O._try(model.sample, -1)
    if name == 'reseed':
        s = op['seed'] if op['as'] == 'int' else np.random.RandomState(op['seed'])
        model.set_random_state(s)
        return 'reseeded'
    raise ValueError(name)


def oracle(case):
    from copulas import datasets

    np.random.seed(case['global0'])
    _SHARED.clear()
    models, twins, seeded, logs = [], [], [], []
    for spec in case['models']:
        m = value(build, spec, what='build %s' % spec['kind'])
        models.append(m)
        twins.append(copy.deepcopy(m))
        seeded.append(spec['seed']['kind'] != 'none')
        logs.append([])
    np.random.seed(case['global0'])
    nm = len(models)
    last_sample = {}
    order = []
    perturbed_between = False
    pending = set()
    cls = set()
    for step, op in enumerate(case['ops']):
        name = op['op']
        before = np.random.get_state()
        if name == 'global_seed':
            np.random.seed(op['k'])
            pending = set(last_sample)
            continue
        if name == 'global_draw':
            np.random.uniform(size=op['n'])
            pending = set(last_sample)
            continue
        if name == 'dataset':
            fn = getattr(datasets, op['name'])
            a = value(fn, op['size'], op['seed'], what=op['name'])
            require(same_state(before, np.random.get_state()), 'step %d: datasets.%s(%d, %d) changed the global NumPy random state' % (step, op['name'], op['size'], op['seed']),
                    tag='global-state-dataset')
            require(len(a) == op['size'], 'datasets.%s(size=%d) returned %d rows' % (op['name'], op['size'], len(a)), tag='dataset-size')
            np.random.uniform(size=3)
            b = value(fn, op['size'], op['seed'], what=op['name'])
            d = O.first_difference(O.normalise(a), O.normalise(b))
            require(d is None, 'datasets.%s(%d, %d) is not a function of (size, seed): %s' % (op['name'], op['size'], op['seed'], d), tag='dataset-determinism')
            np.random.set_state(before)
            cls.add('dataset')
            continue
        i = op['i'] % nm
        m = models[i]
        kind = case['models'][i]['kind']
        if seeded[i] or name == 'reseed':
            out = run_op(m, op)
            if name == 'reseed':
                seeded[i] = True
                last_sample.pop(i, None)      # re-seeding restarts the stream: the next sample may repeat an earlier one
            logs[i].append((op, out))
            require(same_state(before, np.random.get_state()), 'step %d: %s on the seeded %s model changed the global NumPy random state' % (step, name, kind),
                    tag='global-state', detail={'step': step})
            if name in ('sample', 'sample_cond'):
                if i in pending:
                    perturbed_between = True
                key = (i, run_op.__name__)
                prev = last_sample.get(i)
                if prev is not None and prev[0] == (name, op.get('n')) and isinstance(out, (np.ndarray, dict)) and not isinstance(prev[1], str):
                    d = O.first_difference(prev[1], out)
                    arr = out if isinstance(out, np.ndarray) else np.asarray(out.get('values', []))
                    if np.size(arr) >= 2 and np.ptp(np.asarray(arr, dtype=float)[np.isfinite(np.asarray(arr, dtype=float))]) > 0:
                        require(d is not None, 'step %d: two successive identical sample calls on the seeded %s model returned identical values (the stream did not advance)'
                                % (step, kind), tag='stream-not-advancing')
                last_sample[i] = ((name, op.get('n')), out)
                pending.discard(i)
                order.append(i)
            if name == 'sample_raises':
                cls.add('raising-call')
        else:
            # unseeded: driven by and reproducible through the global state
            if name in ('sample', 'sample_cond'):
                np.random.seed(1234 + step)
                s0 = np.random.get_state()
                a = run_op(m, op)
                s1 = np.random.get_state()
                np.random.seed(1234 + step)
                b = run_op(m, op)
                d = O.first_difference(a, b)
                require(d is None, 'step %d: unseeded %s sampling is not reproducible through np.random.seed: %s' % (step, kind, d), tag='unseeded-reproducible')
                moved = not same_state(s0, s1)
                require(moved or isinstance(a, str), 'step %d: unseeded %s sampling did not use the global NumPy random state' % (step, kind), tag='unseeded-global')
                cls.add('unseeded')
            else:
                run_op(m, op)
    # isolation: each seeded model equals its twin that ran only its own operations
    for i in range(nm):
        if not logs[i]:
            continue
        tw = twins[i]
        st0 = np.random.get_state()
        np.random.seed(99)          # a different ambient state must not matter
        for j, (op, out) in enumerate(logs[i]):
            if op['op'] != 'reseed' and getattr(tw, 'random_state', None) is None:
                continue            # the model was unseeded until its first reseed: those outputs were not logged
            got = run_op(tw, op)
            d = O.first_difference(out, got)
            require(d is None, 'model %d (%s): operation %d (%s) gave a different result than on an equal model running the same operations alone: %s'
                    % (i, case['models'][i]['kind'], j, op['op'], d), tag='stream-isolation', detail={'model': i, 'op': j})
        np.random.set_state(st0)
    # re-seeding: after set_random_state(s) the stream must be the one of an equal model *constructed* with seed s
    for i in range(nm):
        idx = [j for j, (op, out) in enumerate(logs[i]) if op['op'] == 'reseed']
        if not idx:
            continue
        j0 = idx[-1]
        rop = logs[i][j0][0]
        spec2 = dict(case['models'][i], seed={'kind': rop['as'], 'value': rop['seed']})
        st0 = np.random.get_state()
        fresh = value(build, spec2, what='build %s' % spec2['kind'])
        np.random.set_state(st0)
        for j, (op, out) in enumerate(logs[i][j0 + 1:]):
            got = run_op(fresh, op)
            d = O.first_difference(out, got)
            require(d is None, 'model %d (%s): after set_random_state(%r) operation %d (%s) differs from an equal model constructed with that seed: %s'
                    % (i, case['models'][i]['kind'], rop['seed'], j, op['op'], d), tag='reseed-restart', detail={'model': i})
        np.random.set_state(st0)
        cls.add('reseed-restart-checked')
    interleaved = len(set(order)) >= 2 and any(order[k] != order[k + 1] for k in range(len(order) - 1))
    for spec in case['models']:
        cls.add('model:' + spec['kind'] + (':' + spec.get('cls', spec.get('family', spec.get('vine_type', ''))) if spec['kind'] != 'gaussian' else ''))
        cls.add('seed:' + spec['seed']['kind'] + ('-shared-object' if spec['seed'].get('shared') else ''))
    return {'nontrivial': bool(interleaved and perturbed_between), 'classes': sorted(cls)}


SUBS = [
    Sub('histories', strategy(), oracle, quick=640, thorough=38400),
]
