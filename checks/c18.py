"""C18 - vectorised root finders return a bracketed root for every lane."""

import math

import numpy as np
from hypothesis import strategies as st
from vlib.harness import target

from vlib.harness import Sub, Violation, call, require, value

PROPERTY_ID = 'C18'
LEVEL = 'exploration'
RULE = ('Batches of 1..1000 lanes; each lane draws a monotone continuous function kind (linear, '
        'cubic/quintic with flat root, |z|^0.2 sign z, tanh, expm1, arctan), a slope 10^U(-6,6), a '
        'bracket [lo, lo+w] with |lo| <= 1e3, w = 10^U(-6,6) capped so |x| <= 1e6, and a root at '
        'lo+frac*w (frac in {0,1} for ~15% of lanes, dyadic fractions of power-of-two brackets so that a bisection midpoint is an exact zero). Oracle = the known root. Non-trivial: a batch '
        'with >= 2 function kinds and slope spread >= 1e4 (sub-properties bisect/chandrupatla), a '
        'KDE inversion with >= 5 distinct training values, or an invalid bracket mixed into valid '
        'lanes. Distinctness = hash of the generated case.')
ASSUMPTIONS = [
    'the generated functions change sign exactly at the stated root (z = x - r is computed exactly '
    'near the root), so containment/tolerance are decided against a known root, not against f',
    'chandrupatla tolerance is read as 1e-9*width + 8*eps*max|bracket end| (floating resolution of x)',
]

KINDS = ['linear', 'cubic', 'quintic', 'root5', 'tanh', 'expm1', 'arctan']
EPS = np.finfo(float).eps


def g(kind, z):
    if kind == 'linear':
        return z
    if kind == 'cubic':
        return z ** 3
    if kind == 'quintic':
        return z ** 5
    if kind == 'root5':
        return np.sign(z) * np.abs(z) ** 0.2
    if kind == 'tanh':
        return np.tanh(10.0 * z)
    if kind == 'expm1':
        return np.expm1(3.0 * z)
    if kind == 'arctan':
        return np.arctan(20.0 * z)
    raise ValueError(kind)


def build(lanes):
    """Return (f, lo, hi, r) for a list of lane dicts."""
    lo = np.array([ln['lo'] for ln in lanes], dtype=float)
    w = np.array([ln['w'] for ln in lanes], dtype=float)
    # lanes far from the origin (timestamps, ids): the bracket keeps at least 1e4 representable points
    far = np.array([ln.get('far') or 0.0 for ln in lanes], dtype=float)
    lo = np.where(far > 0, lo + np.where(lo < 0, -1.0, 1.0) * 10.0 ** far, lo)
    w = np.where(far > 0, np.maximum(w, 1e4 * np.spacing(np.abs(lo))), w)
    hi = lo + w
    frac = np.array([ln['frac'] for ln in lanes], dtype=float)
    r = np.clip(lo + frac * w, lo, hi)
    slope = np.array([10.0 ** ln['slope_exp'] for ln in lanes])
    kinds = [ln['kind'] for ln in lanes]
    kind_idx = {k: np.array([i for i, kk in enumerate(kinds) if kk == k], dtype=int) for k in set(kinds)}

    f32 = bool(lanes and lanes[0].get('f32'))

    def f(x):
        x = np.asarray(x, dtype=float)
        z = (x - r) / w
        out = np.empty_like(z)
        for k, idx in kind_idx.items():
            out[idx] = slope[idx] * g(k, z[idx])
        # a function computed in single precision (a float32 model, a GPU kernel): the solvers' tolerances are about x
        return out.astype(np.float32) if f32 else out

    return f, lo, hi, r


def lane_strategy():
    lo = st.one_of(
        st.floats(-1000, 1000, allow_nan=False),
        st.builds(lambda s, e: s * 10.0 ** e, st.sampled_from([-1.0, 1.0]), st.floats(-2, 3)),
        st.just(0.0),
        st.sampled_from([-4.0, -1.0, 1.0, 8.0]),
    )
    frac = st.one_of(
        st.floats(0.0, 1.0, allow_nan=False),
        st.floats(0.0, 1.0, allow_nan=False),
        st.floats(0.0, 1.0, allow_nan=False),
        st.floats(0.0, 1.0, allow_nan=False),
        st.floats(0.0, 1.0, allow_nan=False),
        st.sampled_from([0.0, 1.0]),
        st.sampled_from([0.5, 0.25, 0.75, 0.125, 0.625]),      # roots that a bisection midpoint hits exactly
        st.builds(lambda e, s: (10.0 ** e) if s else 1 - 10.0 ** e, st.floats(-12, -1), st.booleans()),
    )
    return st.fixed_dictionaries({
        'kind': st.sampled_from(KINDS),
        'slope_exp': st.floats(-6, 6),
        'lo': lo,
        'w': st.one_of(st.floats(-6, 6).map(lambda e: min(10.0 ** e, 9.0e5)), st.sampled_from([1.0, 2.0, 8.0, 1024.0])),
        'frac': frac,
        'far': st.one_of(st.none(), st.none(), st.none(), st.none(), st.none(), st.none(), st.floats(7.0, 12.0)),
    })


def batch_strategy():
    sizes = st.one_of(st.integers(1, 8), st.integers(1, 60), st.integers(200, 1000))

    @st.composite
    def batches(draw):
        n = draw(sizes)
        if n <= 60:
            lanes = draw(st.lists(lane_strategy(), min_size=n, max_size=n))
        else:
            # big batches: draw a few prototype lanes and tile them with a permutation seed
            protos = draw(st.lists(lane_strategy(), min_size=2, max_size=12))
            seed = draw(st.integers(0, 2 ** 31 - 1))
            rs = np.random.RandomState(seed)
            lanes = []
            for i in range(n):
                p = dict(protos[rs.randint(len(protos))])
                p['frac'] = float(rs.uniform()) if rs.uniform() < 0.85 else float(rs.randint(2))
                lanes.append(p)
        if draw(st.integers(0, 5)) == 0:
            lanes = [dict(ln, f32=True) for ln in lanes]
        return {'lanes': lanes, 'probe': draw(st.integers(0, n - 1))}

    return batches()


def nontrivial_batch(lanes):
    kinds = {ln['kind'] for ln in lanes}
    exps = [ln['slope_exp'] for ln in lanes]
    return len(kinds) >= 2 and (max(exps) - min(exps)) >= 4


def classes_of(lanes):
    out = []
    n = len(lanes)
    out.append('lanes=1' if n == 1 else 'lanes<=8' if n <= 8 else 'lanes<=60' if n <= 60 else 'lanes>=200')
    if any(ln['frac'] in (0.0, 1.0) for ln in lanes):
        out.append('root-at-bracket-end')
    if any(ln['kind'] in ('cubic', 'quintic') for ln in lanes):
        out.append('flat-root')
    if any(ln['kind'] == 'root5' for ln in lanes):
        out.append('infinite-slope')
    if lanes and lanes[0].get('f32'):
        out.append('float32-function')
    if any(ln.get('far') for ln in lanes):
        out.append('far-lane' if all(ln.get('far') for ln in lanes) else 'far-and-near-lanes')
    return out


def check_solution(name, x, f, lo, hi, r, tol, what):
    x = np.asarray(x, dtype=float)
    require(x.shape == lo.shape, '%s returned shape %s for %d lanes' % (name, x.shape, len(lo)))
    require(np.all(np.isfinite(x)), '%s returned non-finite values %s' % (name, what))
    bad = (x < lo) | (x > hi)
    require(not bad.any(), '%s: lane %s left its bracket: x=%r not in [%r, %r] %s'
            % (name, np.where(bad)[0][:5].tolist(), x[bad][:3].tolist(), lo[bad][:3].tolist(),
               hi[bad][:3].tolist(), what), tag='bracket')
    err = np.abs(x - r)
    fx = f(x)
    ok = (err <= tol) | (fx == 0)
    if not ok.all():
        j = int(np.argmax(np.where(ok, 0, err / tol)))
        raise Violation('%s: lane %d is %.3g from its root (tolerance %.3g), f(x)=%.3g %s'
                        % (name, j, err[j], tol[j], fx[j], what), tag='tolerance',
                        detail={'lane': j, 'x': float(x[j]), 'root': float(r[j])})
    return float(np.max(np.where(fx == 0, 0, err / tol)))


def oracle_bisect(case):
    from copulas.optimize import bisect

    lanes = case['lanes']
    f, lo, hi, r = build(lanes)
    # 1e-8 in x, or the floating-point resolution of the lane itself where that is coarser (a lane at 1e12 cannot be
    # located to 1e-8); the resolution of *other* lanes in the batch must not matter
    tol = np.maximum(1e-8, 2.0 * np.spacing(np.maximum(np.abs(lo), np.abs(hi))))
    x = value(bisect, f, lo.copy(), hi.copy(), what='bisect')
    ratio = check_solution('bisect', x, f, lo, hi, r, tol, '(batch)')
    # lane independence: the probe lane solved alone must also be within tolerance, and the batch
    # answer must agree with it to the solver tolerance
    j = case['probe'] % len(lanes)
    f1, lo1, hi1, r1 = build([lanes[j]])
    x1 = value(bisect, f1, lo1.copy(), hi1.copy(), what='bisect')
    check_solution('bisect', x1, f1, lo1, hi1, r1, tol[j:j + 1], '(lane alone)')
    if f1(x1)[0] != 0 and f(x)[j] != 0:
        require(abs(x1[0] - x[j]) <= 2 * tol[j], 'bisect: lane %d alone gives %r, in batch %r' % (j, x1[0], x[j]),
                tag='lane-independence')
    target(ratio, label='bisect err/tol')
    return {'nontrivial': nontrivial_batch(lanes), 'classes': classes_of(lanes)}


def oracle_chandrupatla(case):
    from copulas.optimize import chandrupatla

    lanes = case['lanes']
    f, lo, hi, r = build(lanes)
    tol = 1e-9 * (hi - lo) + 8 * EPS * np.maximum(np.abs(lo), np.abs(hi))
    x = value(chandrupatla, f, lo.copy(), hi.copy(), what='chandrupatla')
    ratio = check_solution('chandrupatla', x, f, lo, hi, r, tol, '(batch)')
    j = case['probe'] % len(lanes)
    f1, lo1, hi1, r1 = build([lanes[j]])
    x1 = value(chandrupatla, f1, lo1.copy(), hi1.copy(), what='chandrupatla')
    check_solution('chandrupatla', x1, f1, lo1, hi1, r1, tol[j:j + 1], '(lane alone)')
    if f1(x1)[0] != 0 and f(x)[j] != 0:
        require(abs(x1[0] - x[j]) <= 2 * tol[j], 'chandrupatla: lane %d alone gives %r, in batch %r'
                % (j, x1[0], x[j]), tag='lane-independence')
    # scalar input behaves like a one-element vector
    ln = lanes[j]

    def fs(xx):
        return float(f1(np.array([xx]))[0])

    xs = value(chandrupatla, fs, float(lo1[0]), float(hi1[0]), what='chandrupatla(scalar)')
    require(np.ndim(xs) == 0 or np.size(xs) == 1, 'chandrupatla scalar input returned %r' % (xs,))
    xs = float(np.ravel(xs)[0])
    require(lo1[0] <= xs <= hi1[0], 'chandrupatla(scalar) left the bracket: %r not in [%r,%r]' % (xs, lo1[0], hi1[0]),
            tag='bracket')
    require(abs(xs - r1[0]) <= tol[j] or fs(xs) == 0,
            'chandrupatla(scalar): %.3g from the root (tolerance %.3g) for lane %r' % (abs(xs - r1[0]), tol[j], ln),
            tag='tolerance')
    target(ratio, label='chandrupatla err/tol')
    return {'nontrivial': nontrivial_batch(lanes), 'classes': classes_of(lanes)}


def invalid_strategy():
    return st.fixed_dictionaries({
        'lanes': st.lists(lane_strategy(), min_size=1, max_size=20),
        'bad': st.integers(0, 19),
        'side': st.sampled_from(['below', 'above']),
        'solver': st.sampled_from(['bisect', 'chandrupatla', 'chandrupatla-scalar']),
    })


def oracle_invalid(case):
    """A bracket whose two ends have the same (non-zero) sign of f must be rejected."""
    from copulas import optimize

    lanes = [dict(ln) for ln in case['lanes']]
    j = case['bad'] % len(lanes)
    f, lo, hi, r = build(lanes)
    w = hi - lo
    # move the root of lane j strictly outside its bracket
    r = r.copy()
    r[j] = lo[j] - 0.5 * w[j] if case['side'] == 'below' else hi[j] + 0.5 * w[j]
    slope = np.array([10.0 ** ln['slope_exp'] for ln in lanes])
    kinds = [ln['kind'] for ln in lanes]

    def fbad(x):
        x = np.asarray(x, dtype=float)
        z = (x - r) / w
        return np.array([slope[i] * g(kinds[i], z[i]) for i in range(len(lanes))])

    flo, fhi = fbad(lo), fbad(hi)
    if not (flo[j] * fhi[j] > 0):   # underflow made an end exactly 0: bracket is valid after all
        return {'nontrivial': False, 'classes': ['degenerate-underflow']}
    solver = case['solver']
    if solver == 'bisect':
        kind, res = call(optimize.bisect, fbad, lo.copy(), hi.copy(), allow=(Exception,))
    elif solver == 'chandrupatla':
        kind, res = call(optimize.chandrupatla, fbad, lo.copy(), hi.copy(), allow=(Exception,))
    else:
        def fs(xx):
            return float(slope[j] * g(kinds[j], np.array([(xx - r[j]) / w[j]]))[0])
        kind, res = call(optimize.chandrupatla, fs, float(lo[j]), float(hi[j]), allow=(Exception,))
    require(kind == 'exc', '%s returned %r for an invalid bracket (f(lo)=%.3g, f(hi)=%.3g in lane %d)'
            % (solver, np.ravel(res)[:5].tolist(), flo[j], fhi[j], j), tag='invalid-bracket-accepted')
    return {'nontrivial': len(lanes) >= 2, 'classes': ['invalid:' + solver, 'side:' + case['side']]}


def kde_strategy():
    return st.fixed_dictionaries({
        'seed': st.integers(0, 2 ** 31 - 1),
        'n': st.integers(5, 200),
        'shape': st.sampled_from(['normal', 'bimodal', 'uniform', 'lognormal', 'ties']),
        'loc': st.floats(-1000, 1000),
        'scale_exp': st.floats(-2, 3),
        'bw': st.sampled_from(['scott', 'silverman', 0.1, 0.3, 0.6, 1.0]),
        'q': st.lists(st.one_of(st.floats(1e-4, 1 - 1e-4), st.floats(0.01, 0.99)), min_size=1, max_size=30),
    })


def make_data(case):
    rs = np.random.RandomState(case['seed'])
    n = case['n']
    s = 10.0 ** case['scale_exp']
    shape = case['shape']
    if shape == 'normal':
        x = rs.normal(size=n)
    elif shape == 'bimodal':
        x = np.where(rs.uniform(size=n) < 0.4, rs.normal(size=n), rs.normal(size=n) * 0.5 + 8)
    elif shape == 'uniform':
        x = rs.uniform(-1, 1, size=n)
    elif shape == 'lognormal':
        x = rs.lognormal(size=n)
    else:
        x = np.round(rs.normal(size=n) * 3)
        x[:5] = np.arange(5)
    return case['loc'] + s * x


def oracle_kde(case):
    """Both solvers, driven through GaussianKDE.percent_point, invert the KDE CDF and agree."""
    from copulas.univariate import GaussianKDE

    data = make_data(case)
    if len(np.unique(data)) < 5:
        return {'nontrivial': False, 'classes': ['too-few-distinct']}
    m = GaussianKDE(bw_method=case['bw'])
    value(m.fit, data, what='GaussianKDE.fit')
    q = np.array(case['q'], dtype=float)
    xa = value(m.percent_point, q.copy(), method='chandrupatla', what='percent_point(chandrupatla)')
    xb = value(m.percent_point, q.copy(), method='bisect', what='percent_point(bisect)')
    lower, upper = m._get_bounds()
    sd = float(np.std(data))
    for name, x in (('chandrupatla', xa), ('bisect', xb)):
        x = np.asarray(x, dtype=float)
        require(x.shape == q.shape and np.all(np.isfinite(x)), 'percent_point(%s) returned %r' % (name, x[:5]))
        require(np.all((x >= lower) & (x <= upper)), 'percent_point(%s) left [%r,%r]' % (name, lower, upper), tag='bracket')
        back = value(m.cumulative_distribution, x, what='cumulative_distribution')
        # bisect resolves x to 1e-8 absolute: allow the cdf slope times that
        slope = np.max(value(m.probability_density, x, what='probability_density'))
        tol = 1e-9 + 2e-8 * slope if name == 'bisect' else 1e-9 + 1e-9 * (upper - lower) * slope
        require(np.all(np.abs(back - q) <= tol), 'cdf(percent_point(q, %s)) misses q by %.3g (tol %.3g)'
                % (name, np.max(np.abs(back - q)), tol), tag='kde-inverse')
    pdf = value(m.probability_density, xa, what='probability_density')
    gap = np.abs(xa - xb)
    lim = 1e-7 + 1e-9 * (upper - lower) + 2e-9 / np.maximum(pdf, 1e-300)
    require(np.all(gap <= np.maximum(lim, 2e-8)), 'solvers disagree by %.3g at q=%r (sd %.3g)'
            % (np.max(gap), q[int(np.argmax(gap))], sd), tag='solver-agreement')
    # element-wise: a lane alone gives the same answer
    x1 = value(m.percent_point, q[:1].copy(), what='percent_point')
    require(abs(x1[0] - xa[0]) <= 1e-9 * (upper - lower) + 1e-9 / max(pdf[0], 1e-300) + 8 * EPS * abs(xa[0]),
            'percent_point lane alone %r vs in batch %r' % (x1[0], xa[0]), tag='lane-independence')
    return {'nontrivial': True, 'classes': ['kde:' + case['shape'], 'bw:%s' % case['bw']]}


SUBS = [
    Sub('bisect', batch_strategy(), oracle_bisect, quick=1200, thorough=120000, use_target=True),
    Sub('chandrupatla', batch_strategy(), oracle_chandrupatla, quick=1200, thorough=120000, use_target=True),
    Sub('invalid_bracket', invalid_strategy(), oracle_invalid, quick=600, thorough=40000, use_target=True),
    Sub('kde_inverse', kde_strategy(), oracle_kde, quick=300, thorough=32000, use_target=True),
]
