"""C19 - model lifecycle: fit is a pure function of its inputs; misuse fails loudly."""

import copy

import numpy as np
from hypothesis import strategies as st

from checks import c03, c10, c14, c16
from vlib import models as M
from vlib import observe as O
from vlib import poison
from vlib import strategies as S
from vlib.harness import Sub, Violation, call, require, value

PROPERTY_ID = 'C19'
LEVEL = 'exploration'
RULE = ('(a) generated fit histories: one model (every univariate class with options incl. KDE sample_size / bandwidth, '
        'TruncatedGaussian with and without user bounds, the selecting wrapper; Clayton/Frank/Gumbel; GaussianMultivariate; '
        'the three vines) fitted 2..4 times on generated datasets (constant, non-constant, different ranges, sizes and column '
        'counts, invalid ones in between); after every successful fit its observation (to_dict, probes, seeded sample streams) '
        'must equal that of a fresh equal model fitted once on that dataset under the same global RNG seed. (b) every query of a '
        'fresh unfitted model raises NotFittedError. (c) invalid multivariate training data (empty, object/str/bool dtype, NaN) '
        '=> ValueError and the model stays unfitted. (d) get_instance(prototype) for name / class / unfitted / fitted instance: '
        'new unfitted object of the class, behaving like a directly configured model after fitting. (e) fault injection: vine '
        'fit + likelihood + to_dict with np.empty poisoned by NaN / 0.37 / -0.91 give identical observations. Non-trivial: a '
        'history with >= 2 successful fits on different datasets; distinct = distinct generated case.')
ASSUMPTIONS = [
    'uninitialised memory is modelled by poisoning every np.empty call site of the package (all are in multivariate/tree.py and vine.py)',
    'to_dict() of an unfitted vine or bivariate copula is documented to return an "unfitted" dict and is not a query',
]


# ---- (a) refit == fresh fit ---------------------------------------------------------------------------

def uni_history():
    data = st.one_of(c03.data_strategy(300), c03.data_strategy(300),
                     st.fixed_dictionaries({'shape': st.just('constant'), 'value': st.floats(-100, 100), 'n': st.integers(2, 60)}))
    const = st.fixed_dictionaries({'shape': st.just('constant'), 'value': st.floats(-100, 100), 'n': st.integers(2, 60)})
    plain = st.sampled_from(['BetaUnivariate', 'GammaUnivariate', 'GaussianUnivariate', 'UniformUnivariate', 'StudentTUnivariate', 'LogLaplace',
                             'TruncatedGaussian', 'GaussianKDE', 'Univariate']).map(lambda c: {'cls': c, 'opts': {}})
    return st.one_of(
        st.fixed_dictionaries({'kind': st.just('univariate'), 'model': c03.model_strategy(), 'fits': st.lists(data, min_size=2, max_size=4)}),
        st.fixed_dictionaries({'kind': st.just('univariate'), 'model': c03.model_strategy(), 'fits': st.lists(data, min_size=2, max_size=4)}),
        # every family (default options, and the selecting wrapper) with a constant sample somewhere in its history
        st.fixed_dictionaries({'kind': st.just('univariate'), 'model': plain,
                               'fits': st.tuples(data, const, data).map(list)}),
        st.fixed_dictionaries({'kind': st.just('univariate'), 'model': plain, 'fits': st.tuples(const, const).map(list)}))


def biv_history():
    return st.fixed_dictionaries({'kind': st.just('bivariate'), 'family': st.sampled_from(c10.FAMS),
                                  'fits': st.lists(c10.data_strategy(), min_size=2, max_size=4)})


def gauss_history():
    @st.composite
    def cases(draw):
        tables = draw(st.lists(S.table_spec(2, 4, 30, 150), min_size=2, max_size=3))
        atom = draw(M.dist_atom(M.FAST_CLASSES, allow_default=False, allow_wrapper=False))
        return {'kind': 'gaussian', 'config': {'mode': 'single', 'dist': atom}, 'fits': tables}

    return cases()


def vine_history():
    @st.composite
    def cases(draw):
        fits = draw(st.lists(c16.vine_case(2, 5, 30, 80), min_size=2, max_size=3))
        vt = draw(st.sampled_from(['center', 'direct', 'regular']))
        for f in fits:
            f['vine_type'] = vt
        return {'kind': 'vine', 'vine_type': vt, 'fits': fits}

    return cases()


def history_strategy():
    return st.fixed_dictionaries({'h': st.one_of(uni_history(), uni_history(), biv_history(), gauss_history(), vine_history()),
                                  'seed': S.SEEDS})


def new_model(h, first_data=None):
    from copulas.multivariate import VineCopula

    k = h['kind']
    if k == 'univariate':
        ref = first_data if first_data is not None and len(np.unique(first_data)) > 1 else np.array([0.0, 1.0])
        return c03.build_model(h['model'], ref)
    if k == 'bivariate':
        return c10.make(h['family'])
    if k == 'gaussian':
        return M.build_gaussian(h['config'], [])
    return VineCopula(h['vine_type'])


def dataset(h, spec):
    k = h['kind']
    if k == 'univariate':
        return c03.make_data(spec)
    if k == 'bivariate':
        return c10.build(spec)
    if k == 'gaussian':
        return S.build_table(spec)[0]
    return c16.build(spec)


def probes_for(h, data, seed):
    rs = np.random.RandomState(seed)
    k = h['kind']
    if k == 'univariate':
        lo, hi = float(np.min(data)), float(np.max(data))
        span = (hi - lo) or max(abs(lo), 1.0)
        return {'x': (lo + rs.uniform(-0.3, 1.3, size=7) * span).tolist() + [lo, hi], 'q': [0.0, 0.01, 0.3, 0.5, 0.9, 0.999, 1.0]}
    if k == 'bivariate':
        return {'X': np.clip(rs.uniform(size=(6, 2)), 1e-3, 1 - 1e-3).tolist()}
    if k == 'gaussian':
        X = data.to_numpy().astype(float)
        return {'rows': X[rs.randint(0, len(X), size=4)].tolist()}
    return {'u': np.clip(rs.uniform(size=data.shape[1]), 0.05, 0.95).tolist(), 'n_sample': 2}


def do_fit(model, h, data, spec, seed):
    np.random.seed(seed % (2 ** 32))
    if h['kind'] == 'vine':
        return call(model.fit, data.copy(), truncated=spec['truncated'], allow=(Exception,), what='fit')
    return call(model.fit, data.copy(), allow=(Exception,), what='fit')


def oracle_history(case):
    h = case['h']
    datas = [dataset(h, s) for s in h['fits']]
    # truncation bounds of a TruncatedGaussian prototype are derived from the first dataset (both objects get the same)
    model = new_model(h, datas[0] if h['kind'] == 'univariate' else None)
    ok_fits = 0
    cls = ['kind:' + h['kind']]
    if h['kind'] == 'univariate':
        cls.append('model:' + h['model']['cls'])
    kinds_seen = []
    for step, (spec, data) in enumerate(zip(h['fits'], datas)):
        seed = case['seed'] + 17 * step
        k1, e1 = do_fit(model, h, data, spec, seed)
        fresh = new_model(h, datas[0] if h['kind'] == 'univariate' else None)
        k2, e2 = do_fit(fresh, h, data, spec, seed)
        if k2 == 'exc':
            # the dataset is rejected by a fresh model: the re-used model must reject it as well
            require(k1 == 'exc', 'fit #%d: a fresh model rejects this dataset (%s: %s) but the previously fitted model accepted it'
                    % (step + 1, type(e2).__name__, str(e2)[:100]), tag='refit-accepts-rejected')
            kinds_seen.append('rejected')
            continue
        require(k1 == 'ok', 'fit #%d raised %s: %s on a model that had been fitted before, while a fresh model fits the same data'
                % (step + 1, type(e1).__name__, str(e1)[:200]), tag='refit-raises', detail={'step': step})
        probes = probes_for(h, data, case['seed'])
        if h['kind'] == 'univariate' and len(np.unique(data)) == 1:
            # a third model of the same configuration is fitted on ANOTHER constant now; the two models above still
            # describe the point mass at their own constant (parameters included: to_dict -> from_dict)
            from copulas.univariate import Univariate

            byst = new_model(h, datas[0])
            call(byst.fit, np.full(5, float(data[0]) + 1.0), allow=(Exception,))
            back = value(Univariate.from_dict, value(model.to_dict, what='to_dict'), what='Univariate.from_dict')
            smp = np.asarray(value(back.sample, 3, what='sample'), dtype=float)
            require(np.all(smp == float(data[0])), '%s fitted on the constant %r: after another model was fitted on the constant %r, its to_dict() '
                    'describes the point mass at %r' % (c14.describe({'kind': 'univariate', 'model': h.get('model')}), float(data[0]), float(data[0]) + 1.0,
                                                        smp.tolist()), tag='shared-state', detail={'step': step})
        a = O.observe(model, probes, seed=case['seed'] % 1000)
        b = O.observe(fresh, probes, seed=case['seed'] % 1000)
        d = O.first_difference(a, b)
        require(d is None, '%s: after fit #%d (history %s) the model differs from a fresh model fitted once on the same data at %s'
                % (c14.describe({'kind': h['kind'], 'model': h.get('model'), 'family': h.get('family'), 'vine_type': h.get('vine_type')}),
                   step + 1, kinds_seen + ['this'], d), tag='refit-differs', detail={'step': step, 'diff': d})
        ok_fits += 1
        if h['kind'] == 'univariate':
            kinds_seen.append('constant' if len(np.unique(data)) == 1 else 'data(n=%d)' % len(data))
        else:
            kinds_seen.append('ok')
    if 'constant' in kinds_seen:
        cls.append('constant-in-history')
    if 'rejected' in kinds_seen:
        cls.append('rejected-in-history')
    return {'nontrivial': ok_fits >= 2, 'classes': cls}


# ---- (b) unfitted contract -----------------------------------------------------------------------------

def unfitted_strategy():
    uni = st.fixed_dictionaries({'kind': st.just('univariate'), 'model': c03.model_strategy()})
    biv = st.fixed_dictionaries({'kind': st.just('bivariate'), 'family': st.sampled_from(c10.FAMS)})
    gau = st.fixed_dictionaries({'kind': st.just('gaussian'), 'config': st.fixed_dictionaries({'mode': st.just('single'), 'dist': M.dist_atom(M.FAST_CLASSES)})})
    vin = st.fixed_dictionaries({'kind': st.just('vine'), 'vine_type': st.sampled_from(['center', 'direct', 'regular'])})
    return st.fixed_dictionaries({'h': st.one_of(uni, biv, gau, vin),
                                  'via': st.sampled_from(['constructor', 'deepcopy', 'get_instance', 'dict', 'generic-dict', 'save-load'])})


def queries(kind):
    x = np.array([0.3, 0.6])
    X2 = np.array([[0.3, 0.6], [0.5, 0.5]])
    if kind == 'univariate':
        return [('cdf', lambda m: m.cdf(x)), ('pdf', lambda m: m.pdf(x)), ('percent_point', lambda m: m.percent_point(x)),
                ('log_probability_density', lambda m: m.log_probability_density(x)), ('sample', lambda m: m.sample(3)), ('to_dict', lambda m: m.to_dict())]
    if kind == 'bivariate':
        return [('cdf', lambda m: m.cdf(X2)), ('pdf', lambda m: m.pdf(X2)), ('partial_derivative', lambda m: m.partial_derivative(X2)),
                ('percent_point', lambda m: m.percent_point(x, x)), ('sample', lambda m: m.sample(3)), ('generator', lambda m: m.generator(x)),
                ('log_probability_density', lambda m: m.log_probability_density(X2))]
    if kind == 'gaussian':
        return [('pdf', lambda m: m.pdf(X2)), ('cdf', lambda m: m.cdf(X2)), ('sample', lambda m: m.sample(3)), ('to_dict', lambda m: m.to_dict()),
                ('sample(conditions)', lambda m: m.sample(2, conditions={'a': 1.0}))]
    return [('sample', lambda m: m.sample(2)), ('get_likelihood', lambda m: m.get_likelihood(np.array([[0.3, 0.6]])))]


def oracle_unfitted(case):
    from copulas.errors import NotFittedError
    from copulas.utils import get_instance

    h = case['h']
    m = new_model(h)
    if case['via'] == 'deepcopy':
        m = copy.deepcopy(m)
    elif case['via'] == 'get_instance' and h['kind'] != 'bivariate':
        m = get_instance(m)
    elif case['via'] in ('dict', 'generic-dict') and h['kind'] in ('bivariate', 'vine'):
        # bivariate copulas and vines serialise in the unfitted state too: what comes back is still unfitted
        from copulas.bivariate.base import Bivariate
        from copulas.multivariate.base import Multivariate

        dct = value(m.to_dict, what='%s.to_dict (unfitted)' % type(m).__name__)
        loader = type(m) if case['via'] == 'dict' else (Bivariate if h['kind'] == 'bivariate' else Multivariate)
        m = value(loader.from_dict, dct, what='%s.from_dict (unfitted)' % loader.__name__)
    elif case['via'] == 'save-load':
        import os
        import shutil
        import tempfile

        tmp = tempfile.mkdtemp(prefix='verif-c19-')
        try:
            path = os.path.join(tmp, 'm.pkl')
            value(m.save, path, what='save (unfitted)')
            m = value(type(m).load, path, what='load (unfitted)')
        finally:
            shutil.rmtree(tmp, ignore_errors=True)
    for name, q in queries(h['kind']):
        k, e = call(q, m, allow=(Exception,))
        require(k == 'exc' and isinstance(e, NotFittedError), 'unfitted %s: %s %s instead of raising NotFittedError'
                % (type(m).__name__, name, 'returned %r' % (e,) if k == 'ok' else 'raised %s(%s)' % (type(e).__name__, str(e)[:80])),
                tag='unfitted-query', detail={'query': name})
    return {'nontrivial': True, 'classes': ['kind:' + h['kind'], 'via:' + case['via']]}


# ---- (c) invalid training data -------------------------------------------------------------------------

def invalid_strategy():
    return st.fixed_dictionaries({
        'model': st.sampled_from(['gaussian', 'vine-center', 'vine-direct', 'vine-regular']),
        'bad': st.sampled_from(['empty', 'empty-columns', 'object', 'str', 'bool', 'nan', 'nan-one-cell', 'nan-float32', 'nan-float16']),
        'container': st.sampled_from(['frame', 'frame', 'ndarray']), 'd': st.integers(2, 4), 'n': st.integers(5, 40), 'seed': S.SEEDS,
    })


def oracle_invalid(case):
    import pandas as pd
    from copulas.errors import NotFittedError
    from copulas.multivariate import GaussianMultivariate, VineCopula
    from copulas.univariate import GaussianUnivariate

    rs = np.random.RandomState(case['seed'])
    n, d = case['n'], case['d']
    X = rs.normal(size=(n, d))
    bad = case['bad']
    if bad == 'empty':
        data = pd.DataFrame()
    elif bad == 'empty-columns':
        data = pd.DataFrame(columns=['c%d' % j for j in range(d)], dtype=float)
    elif bad == 'object':
        data = pd.DataFrame(X, columns=['c%d' % j for j in range(d)]).astype(object)
        data.iloc[0, 0] = 'x'
    elif bad == 'str':
        data = pd.DataFrame(X.round(2).astype(str), columns=['c%d' % j for j in range(d)])
    elif bad == 'bool':
        data = pd.DataFrame(X > 0, columns=['c%d' % j for j in range(d)])
    elif bad == 'nan':
        Y = X.copy()
        Y[:, 0] = np.nan
        data = pd.DataFrame(Y, columns=['c%d' % j for j in range(d)])
    elif bad in ('nan-float32', 'nan-float16'):
        Y = X.astype(np.float32 if bad == 'nan-float32' else np.float16)
        Y[rs.randint(n), rs.randint(d)] = np.nan
        data = pd.DataFrame(Y, columns=['c%d' % j for j in range(d)])
    else:
        Y = X.copy()
        Y[rs.randint(n), rs.randint(d)] = np.nan
        data = pd.DataFrame(Y, columns=['c%d' % j for j in range(d)])
    is_vine = case['model'].startswith('vine')
    if case['container'] == 'ndarray' and not is_vine and bad not in ('empty',):
        data = data.to_numpy()
    m = VineCopula(case['model'].split('-')[1]) if is_vine else GaussianMultivariate(distribution=GaussianUnivariate)
    k, e = call(m.fit, data, allow=(Exception,))
    require(k == 'exc' and isinstance(e, ValueError), '%s.fit on %s training data %s instead of raising ValueError'
            % (type(m).__name__, bad, 'returned normally' if k == 'ok' else 'raised %s(%s)' % (type(e).__name__, str(e)[:80])), tag='invalid-accepted')
    k2, e2 = call(m.sample, 2, allow=(Exception,))
    require(k2 == 'exc' and isinstance(e2, NotFittedError), 'after a rejected fit, %s.sample %s instead of raising NotFittedError'
            % (type(m).__name__, 'returned a value' if k2 == 'ok' else 'raised %s(%s)' % (type(e2).__name__, str(e2)[:80])), tag='fitted-after-reject')
    return {'nontrivial': True, 'classes': ['model:' + case['model'], 'bad:' + bad, 'container:' + case['container']]}


# ---- (d) get_instance ---------------------------------------------------------------------------------

def clone_strategy():
    return st.fixed_dictionaries({'model': c03.model_strategy(), 'form': st.sampled_from(['fqn', 'class', 'unfitted', 'fitted', 'fitted-constant']),
                                  'data': c03.data_strategy(200), 'other': c03.data_strategy(200), 'seed': S.SEEDS})


def oracle_clone(case):
    from copulas.errors import NotFittedError
    from copulas.utils import get_instance

    data = c03.make_data(case['data'])
    other = c03.make_data(case['other'])
    if len(np.unique(data)) < 5:
        return {'nontrivial': False, 'classes': ['too-few-distinct']}
    spec = case['model']
    form = case['form']
    if form in ('fqn', 'class'):
        spec = {'cls': spec['cls'], 'opts': {}}        # a name or class carries no options
    proto = c03.build_model(spec, data)
    if form == 'fitted':
        k, e = call(proto.fit, other.copy(), allow=(Exception,))
    elif form == 'fitted-constant':
        k, e = call(proto.fit, np.full(7, 3.5), allow=(Exception,))
    if form == 'fqn':
        arg = M.FQN[spec['cls']]
    elif form == 'class':
        arg = M.uni_class(spec['cls'])
    else:
        arg = proto
    clone = value(get_instance, arg, what='get_instance')
    require(clone is not proto, 'get_instance returned the prototype itself', tag='clone-identity')
    require(type(clone).__name__ == spec['cls'], 'get_instance(%s prototype) returned a %s' % (spec['cls'], type(clone).__name__), tag='clone-class')
    k, e = call(clone.cdf, np.array([0.5]), allow=(Exception,))
    require(k == 'exc' and isinstance(e, NotFittedError), 'get_instance(%s %s) is not unfitted: cdf %s' % (form, spec['cls'], 'returned' if k == 'ok' else type(e).__name__),
            tag='clone-fitted')
    direct = c03.build_model(spec, data)
    np.random.seed(case['seed'] % (2 ** 32))
    k1, e1 = call(clone.fit, data.copy(), allow=(Exception,))
    np.random.seed(case['seed'] % (2 ** 32))
    k2, e2 = call(direct.fit, data.copy(), allow=(Exception,))
    require(k1 == k2, 'clone.fit %s but a directly configured model %s' % (k1, k2), tag='clone-config')
    if k1 == 'ok':
        lo, hi = float(data.min()), float(data.max())
        probes = {'x': np.linspace(lo - 0.1 * (hi - lo), hi + 0.1 * (hi - lo), 7).tolist(), 'q': [0.01, 0.5, 0.99]}
        d = O.first_difference(O.observe(clone, probes, seed=7), O.observe(direct, probes, seed=7))
        require(d is None, 'get_instance(%s %s%r): after fitting, the clone differs from a directly configured model at %s' % (form, spec['cls'], spec['opts'], d),
                tag='clone-config', detail={'diff': d})
    return {'nontrivial': k1 == 'ok', 'classes': ['form:' + form, 'model:' + spec['cls']]}


def clone_multi_strategy():
    return st.fixed_dictionaries({
        'kind': st.sampled_from(['gaussian', 'vine']), 'form': st.sampled_from(['unfitted', 'fitted', 'class-kwargs']),
        'dist': M.dist_atom(M.FAST_CLASSES, allow_default=False, allow_wrapper=True), 'vine_type': st.sampled_from(['center', 'direct', 'regular']),
        'table': S.table_spec(2, 4, 30, 120, constant=False), 'seed': S.SEEDS,
    })


def oracle_clone_multi(case):
    """get_instance on multivariate prototypes: new unfitted object, configured like the prototype."""
    from copulas.errors import NotFittedError
    from copulas.multivariate import GaussianMultivariate, VineCopula
    from copulas.utils import get_instance

    df, _ = S.build_table(case['table'])
    if case['kind'] == 'gaussian':
        make = lambda: GaussianMultivariate(distribution=M.build_dist(case['dist']), random_state=case['seed'] % 1000)
        cls = GaussianMultivariate
    else:
        make = lambda: VineCopula(case['vine_type'], random_state=case['seed'] % 1000)
        cls = VineCopula
    proto = make()
    if case['form'] == 'fitted':
        k, e = call(proto.fit, df.copy(), allow=(Exception,))
    if case['form'] == 'class-kwargs':
        kwargs = {'distribution': M.build_dist(case['dist'])} if case['kind'] == 'gaussian' else {'vine_type': case['vine_type']}
        clone = value(get_instance, cls, what='get_instance(class, **kwargs)', **kwargs)
        direct = cls(**kwargs)
    else:
        clone = value(get_instance, proto, what='get_instance(instance)')
        direct = make()
    require(clone is not proto and type(clone) is cls, 'get_instance returned %r for a %s prototype' % (type(clone).__name__, cls.__name__), tag='clone-class')
    k, e = call(clone.sample, 2, allow=(Exception,))
    require(k == 'exc' and isinstance(e, NotFittedError), 'get_instance(%s %s) is not unfitted' % (case['form'], cls.__name__), tag='clone-fitted')
    np.random.seed(3)
    k1, e1 = call(clone.fit, df.copy(), allow=(Exception,))
    np.random.seed(3)
    k2, e2 = call(direct.fit, df.copy(), allow=(Exception,))
    require(k1 == k2, 'clone.fit %s but a directly configured model %s' % (k1, k2), tag='clone-config')
    if k1 == 'ok':
        probes = {'rows': df.to_numpy()[:3].tolist()} if case['kind'] == 'gaussian' else {'u': [0.3] * df.shape[1], 'n_sample': 2}
        d = O.first_difference(O.observe(clone, probes, seed=11), O.observe(direct, probes, seed=11))
        require(d is None, 'get_instance(%s %s): after fitting, the clone differs from a directly configured model at %s' % (case['form'], cls.__name__, d),
                tag='clone-config', detail={'diff': d})
    return {'nontrivial': k1 == 'ok', 'classes': ['kind:' + case['kind'], 'form:' + case['form']]}


# ---- (e) uninitialised memory ---------------------------------------------------------------------------

def vine_signature(vine, u):
    sig = O.normalise(vine.to_dict())
    return {'to_dict': sig, 'likelihood': O._try(vine.get_likelihood, u.copy())}


def oracle_poison(case):
    df = c16.build(case)
    d = df.shape[1]
    u = np.full((1, d), 0.4)
    base, kind, err = c16.fit_vine(case, df)
    if kind == 'exc':
        return {'nontrivial': False, 'classes': ['rejected']}
    want = vine_signature(base, u)
    for p in (np.nan, 0.37, -0.91):
        with poison.poisoned(p) as proxy:
            v, k, e = c16.fit_vine(case, df)
            require(k == 'ok', 'with np.empty poisoned by %r, VineCopula(%r).fit raises %s although it succeeds otherwise' % (p, case['vine_type'], e), tag='uninitialised')
            got = vine_signature(v, u)
        diff = O.first_difference(want, got)
        require(diff is None, 'VineCopula(%r), d=%d, truncation %d: the fitted model depends on uninitialised memory (np.empty poisoned with %r changes %s)'
                % (case['vine_type'], d, case['truncated'], p, diff), tag='uninitialised', detail={'poison': repr(p), 'diff': diff})
    ntrees = len(base.trees)
    return {'nontrivial': ntrees >= 2, 'classes': ['type:' + case['vine_type'], 'd=%d' % d, 'trees=%d' % ntrees]}


SUBS = [
    Sub('refit_equals_fresh', history_strategy(), oracle_history, quick=320, thorough=9600),
    Sub('unfitted_queries', unfitted_strategy(), oracle_unfitted, quick=240, thorough=2400),
    Sub('invalid_training_data', invalid_strategy(), oracle_invalid, quick=240, thorough=4800),
    Sub('get_instance', clone_strategy(), oracle_clone, quick=320, thorough=9600),
    Sub('get_instance_multivariate', clone_multi_strategy(), oracle_clone_multi, quick=160, thorough=3200),
    Sub('poisoned_empty', c16.vine_case(3, 7, 30, 80), oracle_poison, quick=240, thorough=7200),
]
