"""C08 - percent_point inverts the conditional CDF of every bivariate copula."""

import numpy as np
from hypothesis import strategies as st

from vlib import strategies as S
from vlib.harness import Sub, require, target, value
from vlib.refs import archimedean as ref

PROPERTY_ID = 'C08'
LEVEL = 'exploration'
RULE = ('family x theta (|tau|<=0.8; Gumbel theta=1 in >=5%) x vectors of 1..200 lanes (y,v) in [1e-4,1-1e-4]^2 '
        '(uniform + edge-hugging mixture, plus sorted-y/fixed-v vectors). Oracle: u=percent_point(y,v) in [0,1], '
        "h_code(u,v)=y and h_reference(u,v)=y within 1e-6 (reference h = own float64 closed form, cross-checked "
        'with mpmath.diff on probe lanes), non-decreasing in y, lane-alone == in-batch, permutation invariance. '
        'Non-trivial: |tau(theta)|>=0.1 and at least one lane outside [0.1,0.9]^2; distinct = distinct generated case.')
ASSUMPTIONS = [
    'root-finder tolerance: |h(u,v)-y| <= 1e-6 (brentq xtol 2e-12 times the largest slope of h on the domain)',
    'Independence copula is not exercised: its check_fit rejects every instance (theta is None), so it has no reachable percent_point',
]


def ppf(cop, y, v):
    out = value(cop.percent_point, np.array(y, dtype=float), np.array(v, dtype=float),
                what='%s.percent_point' % type(cop).__name__)
    out = np.asarray(out, dtype=float)
    require(out.shape == (len(y),), 'percent_point returned shape %s for %d lanes' % (out.shape, len(y)), tag='shape')
    return out


def classes(fam, th, y, v):
    out = [fam, 'lanes=1' if len(y) == 1 else 'lanes<=20' if len(y) <= 20 else 'lanes>20']
    if fam == 'gumbel' and th == 1:
        out.append('gumbel-theta=1')
    if np.any((np.minimum(y, 1 - y) < 1e-3) | (np.minimum(v, 1 - v) < 1e-3)):
        out.append('edge-hugging')
    return out


def nontrivial(fam, th, y, v):
    tau = ref.tau_theory(fam, th)
    outside = (np.abs(y - 0.5) > 0.4) | (np.abs(v - 0.5) > 0.4)
    return abs(tau) >= 0.1 and bool(outside.any())


def strategy():
    @st.composite
    def cases(draw):
        fam, th = draw(S.family_theta())
        n = draw(st.one_of(st.integers(1, 6), st.integers(1, 40), st.integers(41, 200)))
        c = S.interior_coord()
        if n <= 40:
            y = draw(st.lists(c, min_size=n, max_size=n))
            v = draw(st.lists(c, min_size=n, max_size=n))
        else:
            rs = np.random.RandomState(draw(S.SEEDS))
            y = np.clip(rs.uniform(size=n), 1e-4, 1 - 1e-4).tolist()
            v = np.clip(rs.beta(0.5, 0.5, size=n), 1e-4, 1 - 1e-4).tolist()
        return {'family': fam, 'theta': th, 'y': y, 'v': v, 'probe': draw(st.integers(0, n - 1)),
                'perm_seed': draw(st.integers(0, 10 ** 6)), 'v0': draw(c)}

    return cases()


def oracle(case):
    fam, th = case['family'], case['theta']
    y = np.array(case['y'], dtype=float)
    v = np.array(case['v'], dtype=float)
    n = len(y)
    cop = S.make_copula(fam, th)
    S.interleave_sibling(cop, fam, th, np.column_stack((y, v)))      # two live copulas of one family
    u = ppf(cop, y, v)
    require(np.all(np.isfinite(u)) and np.all((u >= 0) & (u <= 1)), '%s(theta=%r): percent_point outside [0,1] or not finite: %r'
            % (fam, th, u[~((u >= 0) & (u <= 1))][:3]), tag='range')
    hc = np.asarray(value(cop.partial_derivative, np.column_stack((u, v)), what='partial_derivative'), dtype=float)
    e1 = np.abs(hc - y)
    j = int(e1.argmax())
    require(e1[j] <= 1e-6, '%s(theta=%r): partial_derivative(percent_point(y,v),v) - y = %.3g at y=%r v=%r (u=%r)'
            % (fam, th, e1[j], y[j], v[j], u[j]), tag='round-trip-code')
    inside = (u > 0) & (u < 1)
    hr = ref.h_f64(fam, th, u[inside], v[inside])
    e2 = np.abs(hr - y[inside])
    if len(e2):
        k = int(e2.argmax())
        require(e2[k] <= 1e-6, '%s(theta=%r): reference h(percent_point(y,v),v) - y = %.3g at y=%r v=%r (u=%r)'
                % (fam, th, e2[k], y[inside][k], v[inside][k], u[inside][k]), tag='round-trip-reference')
        target(float(max(e1[j], e2[k]) / 1e-6), label='round-trip err/tol')
    # probe lane against the 40-digit derivative of the reference CDF
    p = case['probe'] % n
    if 0 < u[p] < 1:
        hm = float(ref.h_mp(fam, th, u[p], v[p]))
        require(abs(hm - y[p]) <= 1e-6, '%s(theta=%r): dC/dv(percent_point(y,v),v)=%r but y=%r (v=%r)' % (fam, th, hm, y[p], v[p]),
                tag='round-trip-mp')
    # element-wise: lane alone, and under permutation
    alone = ppf(cop, y[p:p + 1], v[p:p + 1])[0]
    require(abs(alone - u[p]) <= 1e-12, '%s(theta=%r): lane %d alone gives %r, in the batch %r' % (fam, th, p, alone, u[p]),
            tag='lane-independence')
    perm = np.random.RandomState(case['perm_seed']).permutation(n)
    # the array returned by the first call belongs to the caller: a later call of the same size must neither return the
    # same object nor change it (u_lo = ppf(y_lo, v); u_hi = ppf(y_hi, v) is the ordinary way to use the method)
    first = value(cop.percent_point, y.copy(), v.copy(), what='percent_point')
    keep = np.array(first, dtype=float, copy=True)
    second = value(cop.percent_point, y[perm].copy(), v[perm].copy(), what='percent_point')
    require(first is not second and np.array_equal(np.asarray(first, dtype=float), keep, equal_nan=True),
            '%s(theta=%r): the result of an earlier percent_point call changed when the method was called again (%r -> %r)'
            % (fam, th, keep[:3], np.asarray(first, dtype=float)[:3]), tag='result-aliased')
    up = ppf(cop, y[perm], v[perm])
    require(np.all(np.abs(up - u[perm]) <= 1e-12), '%s(theta=%r): permuting the lanes changes results' % (fam, th),
            tag='lane-independence')
    # monotone in y for fixed v
    ys = np.sort(y)
    um = ppf(cop, ys, np.full(n, case['v0']))
    d = np.diff(um)
    require(np.all(d >= -1e-9), '%s(theta=%r): percent_point decreases in y at v=%r: steps %r' % (fam, th, case['v0'], d[d < -1e-9][:3]),
            tag='monotone')
    return {'nontrivial': nontrivial(fam, th, y, v), 'classes': classes(fam, th, y, v)}


SUBS = [
    Sub('inverse', strategy(), oracle, quick=1600, thorough=160000, use_target=True),
]
