"""C04 - marginal fitting recovers the generating law; KDE is the kernel estimate."""

import numpy as np
from hypothesis import strategies as st
from scipy import stats

from vlib import models as M
from vlib import stats as vs
from vlib import strategies as S
from vlib.harness import Sub, Violation, call, require, target, value

PROPERTY_ID = 'C04'
LEVEL = 'exploration'
RULE = ('(i) family member x parameters (loc +-1e3, scale 10^U(-2,3), shapes over the ranges in DESIGN 4.0) x n 200..5000 x '
        'seed: sup|F_fit-F_true| <= 3.5/sqrt(n) and sup|F_fit-F_n| <= 4.5/sqrt(n) on a 400-point quantile grid - for every '
        'dataset (Gaussian, Uniform, TruncatedGaussian with the mode inside the truncation, default and user bounds), by the '
        'exact-binomial 80% rule (Beta, Gamma, Student-t, LogLaplace, one-sided TruncatedGaussian; enumerated cells); (ii) '
        'closed-form estimators exact on arbitrary data; (iii) bounded families: no mass outside the fitted support, user '
        'bounds honoured; (iv) KDE density == own weighted Gaussian kernel sum with the requested bandwidth rule on the '
        'serialised dataset, which equals the training data (no sample_size) or has sample_size points consistent with the '
        'training KDE (DKW). Non-trivial: n >= 200 and (loc, scale) not both within [0.5,2]; distinct = distinct case.')
ASSUMPTIONS = [
    'bands 3.5/sqrt(n), 4.5/sqrt(n) are empirical with margin (measured max 1.18 sqrt(n) KS for the every-dataset families)',
    'fitted support of bounded families is read from the public to_dict() parameters',
]
EPS32 = float(np.finfo(np.float32).eps)


def loc_scale():
    return st.tuples(st.one_of(st.floats(-1000, 1000), st.just(0.0)), st.floats(-2, 3))


# ---- (i) recovery, every dataset ------------------------------------------------------------------

def every_strategy():
    @st.composite
    def cases(draw):
        fam = draw(st.sampled_from(['gaussian', 'uniform', 'truncnorm', 'truncnorm']))
        loc, se = draw(loc_scale())
        c = {'family': fam, 'loc': loc, 'scale_exp': se, 'n': draw(st.integers(200, 5000)), 'seed': draw(S.SEEDS)}
        if fam == 'truncnorm':
            c['a'] = draw(st.floats(-3.0, -0.2))
            c['b'] = draw(st.floats(0.2, 3.0))
            c['bounds'] = draw(st.sampled_from(['default', 'user']))
        return c

    return cases()


def gen_sample(c):
    rs = np.random.RandomState(c['seed'])
    loc, scale, n = c['loc'], 10.0 ** c['scale_exp'], c['n']
    fam = c['family']
    if fam == 'gaussian':
        dist = stats.norm(loc=loc, scale=scale)
    elif fam == 'uniform':
        dist = stats.uniform(loc=loc, scale=scale)
    elif fam == 'truncnorm':
        dist = stats.truncnorm(c['a'], c['b'], loc=loc, scale=scale)
    elif fam == 'beta':
        dist = stats.beta(c['a'], c['b'], loc=loc, scale=scale)
    elif fam == 'gamma':
        dist = stats.gamma(c['a'], loc=loc, scale=scale)
    elif fam == 'student_t':
        dist = stats.t(c['a'], loc=loc, scale=scale)
    elif fam == 'loglaplace':
        dist = stats.loglaplace(c['a'], loc=loc, scale=scale)
    else:
        raise ValueError(fam)
    return dist.rvs(size=n, random_state=rs), dist


CLASS_OF = {'gaussian': 'GaussianUnivariate', 'uniform': 'UniformUnivariate', 'truncnorm': 'TruncatedGaussian', 'beta': 'BetaUnivariate',
            'gamma': 'GammaUnivariate', 'student_t': 'StudentTUnivariate', 'loglaplace': 'LogLaplace'}


def fit_model(c, x, dist):
    cls = M.uni_class(CLASS_OF[c['family']])
    if c['family'] == 'truncnorm' and c.get('bounds') == 'user':
        lo, hi = dist.support()
        m = cls(minimum=float(lo), maximum=float(hi))
    else:
        m = cls()
    value(m.fit, x.copy(), what='%s.fit' % cls.__name__)
    return m


def distances(m, x, dist):
    n = len(x)
    grid = np.quantile(x, np.linspace(0.00125, 0.99875, 400))
    Ffit = np.asarray(value(m.cdf, grid, what='cdf'), dtype=float)
    Ftrue = dist.cdf(grid)
    xs = np.sort(x)
    Fs = np.asarray(value(m.cdf, xs, what='cdf'), dtype=float)
    emp = max(np.max(np.abs(Fs - np.arange(1, n + 1) / n)), np.max(np.abs(Fs - np.arange(0, n) / n)))
    return float(np.max(np.abs(Ffit - Ftrue))) * np.sqrt(n), float(emp) * np.sqrt(n)


def nontrivial(c):
    s = 10.0 ** c['scale_exp']
    return c['n'] >= 200 and not (0.5 <= s <= 2 and 0.5 <= abs(c['loc']) <= 2)


def oracle_every(c):
    x, dist = gen_sample(c)
    m = fit_model(c, x, dist)
    d_true, d_emp = distances(m, x, dist)
    what = '%s(loc=%r, scale=%.4g%s) n=%d' % (c['family'], c['loc'], 10.0 ** c['scale_exp'],
                                              ', a=%.3g, b=%.3g, %s bounds' % (c['a'], c['b'], c['bounds']) if c['family'] == 'truncnorm' else '', c['n'])
    target(max(d_true / 3.5, d_emp / 4.5), label='sqrt(n) KS / band')
    require(d_true <= 3.5, '%s: fitted CDF is %.2f/sqrt(n) from the generating CDF (allowed 3.5/sqrt(n)); fitted %r'
            % (what, d_true, value(m.to_dict, what='to_dict')), tag='recovery-true',
            detail={'range': float(np.ptp(x)), 'params': {k: float(v) for k, v in m.to_dict().items() if k != 'type'}})
    require(d_emp <= 4.5, '%s: fitted CDF is %.2f/sqrt(n) from the empirical CDF (allowed 4.5/sqrt(n))' % (what, d_emp), tag='recovery-empirical',
            detail={'range': float(np.ptp(x)), 'params': {k: float(v) for k, v in m.to_dict().items() if k != 'type'}})
    cls = ['family:' + c['family']]
    if c['family'] == 'truncnorm':
        cls += ['bounds:' + c['bounds'], 'range<1' if np.ptp(x) < 1 else 'range>=1']
    return {'nontrivial': nontrivial(c), 'classes': cls}


# ---- (i') recovery, 80% rule, enumerated cells ----------------------------------------------------

def mle_cells(tier, seed):
    """Chunks of K datasets per family; the success counts are pooled over all chunks (and shards) by the harness
    (POOLED below) and tested against the 80 % rule with an exact binomial test on the totals."""
    K, chunks = (120, 16) if tier == 'quick' else (250, 32)
    rs = np.random.RandomState((seed * 17 + 3) % (2 ** 32))
    out = []
    for _ in range(chunks):
        for fam in ('beta', 'gamma', 'gamma_small_shape', 'student_t', 'student_t_heavy', 'loglaplace', 'truncnorm_onesided'):
            out.append({'family': fam, 'K': K if fam not in ('student_t_heavy', 'gamma_small_shape') else K // 2, 'seed': int(rs.randint(0, 2 ** 31 - 1))})
    return out


def oracle_mle(case):
    rs = np.random.RandomState(case['seed'])
    fam, K = case['family'], case['K']
    ok = 0
    worst = []
    for _ in range(K):
        c = {'family': fam, 'loc': float(rs.uniform(-1000, 1000)), 'scale_exp': float(rs.uniform(-2, 3)), 'n': int(rs.randint(200, 5001)),
             'seed': int(rs.randint(0, 2 ** 31 - 1))}
        if fam == 'beta':
            c['a'], c['b'] = float(rs.uniform(0.5, 10)), float(rs.uniform(0.5, 10))
        elif fam == 'gamma':
            c['a'] = float(rs.uniform(0.5, 20))
        elif fam == 'gamma_small_shape':
            # pooled separately: over U(0.5, 20) the sub-range a < 2 is 8 % of the cases and disappears in the 80 % rule
            c['family'] = 'gamma'
            c['a'] = float(rs.uniform(0.5, 2.0))
        elif fam == 'student_t':
            c['a'] = float(rs.uniform(2, 30))
        elif fam == 'student_t_heavy':
            # members of the family without variance / without mean (df < 2, df <= 1): the sample mean and standard
            # deviation say nothing about location and scale there
            c['family'] = 'student_t'
            c['a'] = float(rs.uniform(0.3, 3.0))
        elif fam == 'loglaplace':
            c['a'] = float(rs.uniform(2, 15))
        else:
            c['family'] = 'truncnorm'
            c['bounds'] = 'user' if rs.uniform() < 0.5 else 'default'
            if rs.uniform() < 0.5:
                c['a'], c['b'] = float(rs.uniform(0.2, 1.5)), float(rs.uniform(2.0, 4.0))      # mode left of the window
            else:
                c['a'], c['b'] = float(rs.uniform(-4.0, -2.0)), float(rs.uniform(-1.5, -0.2))
            c['scale_exp'] = float(rs.uniform(0.5, 3))      # keep the range >= 1 (the range<1 scale cap is a separate finding)
        x, dist = gen_sample(c)
        kind, m = call(lambda: fit_model(c, x, dist), allow=(Violation,))
        if kind == 'exc':
            worst.append('fit raised')
            continue
        d_true, d_emp = distances(m, x, dist)
        good = d_true <= 3.5 and d_emp <= 4.5
        ok += good
        if not good:
            worst.append('%.1f/%.1f' % (d_true, d_emp))
    if case.get('standalone', True) and K >= 1000:
        # a single large cell (replays of the thorough tier) is tested on its own
        p = vs.binom_pvalue_below(ok, K, 0.8)
        require(p >= vs.ALPHA_I, '%s: only %d of %d generated datasets are fitted within the bands (required 80%%; binomial p=%.3g); misses %r'
                % (fam, ok, K, p, worst[:8]), tag='mle-recovery')
    return {'nontrivial': True, 'classes': ['family:' + fam, 'rate>=0.8' if ok >= 0.8 * K else 'rate<0.8', 'rate>=0.9' if ok >= 0.9 * K else 'rate<0.9'],
            'tally': {'mle-recovery:' + fam: [ok, K]}}


def oracle_mle_pooled(case):
    """Replay of a pooled violation: re-run every chunk and test the total."""
    ok = tot = 0
    for chunk in case['chunks']:
        info = oracle_mle(dict(chunk, standalone=False))
        a, b = list(info['tally'].values())[0]
        ok += a
        tot += b
    rate = case.get('rate', 0.8)
    p = vs.binom_pvalue_below(ok, tot, rate)
    require(p >= 1e-12, '%s: %d of %d generated datasets are fitted within the bands (required %.0f%%; binomial p=%.3g)' % (case['key'], ok, tot, 100 * rate, p),
            tag='pooled-rate')
    return {'nontrivial': True, 'classes': ['pooled-replay']}


# The 80 % rule is the property's own quantifier for the families delegated to scipy's generic MLE optimiser; every
# family cell (including the sub-range cells student_t_heavy and gamma_small_shape, which a uniform draw over the whole
# shape range would dilute to a few percent of the cases) is tested against it and against nothing stricter.
POOLED = [{'prefix': 'mle-recovery:', 'rate': 0.8, 'alpha': 1e-12, 'replay_sub': 'recovery_mle_80pct_pooled'}]


# ---- (ii) closed-form estimators --------------------------------------------------------------------

def closed_strategy():
    from checks import c03

    return st.fixed_dictionaries({'data': c03.data_strategy(3000), 'cls': st.sampled_from(['GaussianUnivariate', 'UniformUnivariate'])})


def oracle_closed(case):
    from checks import c03

    x = c03.make_data(case['data'])
    if len(np.unique(x)) < 2:
        return {'nontrivial': False, 'classes': ['constant']}
    m = M.uni_class(case['cls'])()
    # the sample as callers hold it: a 1-D array, the (n, 1) column the docstring asks for, a column view of a matrix,
    # a pandas Series with a non-default index, a list
    form = ['1d', 'column', 'view', 'series', 'list'][case['data'].get('seed', 0) % 5]
    if form == 'column':
        arg = x.reshape(-1, 1).copy()
    elif form == 'view':
        arg = np.column_stack((x[::-1], x, x * 2.0))[:, 1:2]
    elif form == 'series':
        import pandas as pd

        arg = pd.Series(x.copy(), index=np.arange(len(x))[::-1] + 7, name='col')
    elif form == 'list':
        arg = x.tolist()
    else:
        arg = x.copy()
    kd_, err_ = call(m.fit, arg, allow=(TypeError, ValueError, AttributeError), what='%s.fit(%s)' % (case['cls'], form))
    if kd_ == 'exc':
        return {'nontrivial': False, 'classes': ['form-refused:' + form]}       # refusing a container is not a wrong estimate
    d = value(m.to_dict, what='to_dict')
    if case['cls'] == 'GaussianUnivariate':
        want = {'loc': float(np.mean(x)), 'scale': float(np.std(x))}
    else:
        want = {'loc': float(np.min(x)), 'scale': float(np.max(x) - np.min(x))}
    for k, v in want.items():
        require(np.ndim(d[k]) == 0, '%s.fit(%s): fitted %s is not a scalar: %r' % (case['cls'], form, k, d[k]), tag='closed-form')
        require(abs(float(d[k]) - v) <= 1e-12 * max(abs(v), 1e-300) + (1e-12 * abs(np.mean(x)) if k == 'loc' else 0),
                '%s: fitted %s=%r, closed-form estimator %r' % (case['cls'], k, d[k], v), tag='closed-form')
    return {'nontrivial': len(x) >= 200, 'classes': ['cls:' + case['cls'], 'data:' + case['data']['shape'], 'form:' + form]}


# ---- (iii) bounded families -------------------------------------------------------------------------

def bounded_strategy():
    from checks import c03

    return st.fixed_dictionaries({
        'data': c03.data_strategy(800), 'cls': st.sampled_from(['BetaUnivariate', 'UniformUnivariate', 'TruncatedGaussian', 'TruncatedGaussian']),
        'user': st.booleans(), 'lo_frac': st.floats(0.0, 2.0), 'hi_frac': st.floats(0.0, 2.0), 'seed': S.SEEDS, 'zero_bound': st.booleans(), 'one_sided': st.sampled_from([None, None, 'min', 'max']),
        'delta': st.floats(-9, 0),
    })


def oracle_bounded(case):
    from checks import c03

    x = c03.make_data(case['data'])
    if len(np.unique(x)) < 5:
        return {'nontrivial': False, 'classes': ['too-few-distinct']}
    rng = float(np.ptp(x))
    cls = case['cls']
    user = case['user'] and cls == 'TruncatedGaussian'
    if user:
        umin = float(np.min(x) - case['lo_frac'] * rng - 1e-6 * rng)
        umax = float(np.max(x) + case['hi_frac'] * rng + 1e-6 * rng)
        if case.get('zero_bound') and np.min(x) > 0:
            umin = 0.0
        elif case.get('zero_bound') and np.max(x) < 0:
            umax = 0.0
        one = case.get('one_sided')
        kw = {'minimum': umin, 'maximum': umax}
        if one == 'min':
            kw.pop('maximum')
            umax = float(np.max(x)) + float(np.finfo(np.float32).eps)      # the missing bound comes from the data (documented)
        elif one == 'max':
            kw.pop('minimum')
            umin = float(np.min(x)) - float(np.finfo(np.float32).eps)
        m = M.uni_class(cls)(random_state=case['seed'], **kw)
    else:
        m = M.uni_class(cls)(random_state=case['seed'])
    kind, err = call(m.fit, x.copy(), allow=(Exception,))
    if kind == 'exc':
        return {'nontrivial': False, 'classes': ['fit-raised:' + cls]}
    d = value(m.to_dict, what='to_dict')
    loc, scale = float(d['loc']), float(d['scale'])
    if cls == 'TruncatedGaussian':
        lo, hi = loc + float(d['a']) * scale, loc + float(d['b']) * scale
    else:
        lo, hi = loc, loc + scale
    if not (np.isfinite(lo) and np.isfinite(hi) and hi > lo):
        return {'nontrivial': False, 'classes': ['degenerate-fit:' + cls]}
    width = hi - lo
    if user:
        require(abs(lo - umin) <= 1e-9 * max(abs(umin), width) and abs(hi - umax) <= 1e-9 * max(abs(umax), width),
                'TruncatedGaussian(minimum=%r, maximum=%r): fitted support is [%r, %r]' % (umin, umax, lo, hi), tag='user-bounds')
    delta = 10.0 ** case['delta'] * width
    tol = 1e-9 * max(abs(lo), abs(hi), width)
    out_pts = np.array([lo - delta - tol, lo - 10 * width, hi + delta + tol, hi + 10 * width])
    F = np.asarray(value(m.cdf, out_pts, what='cdf'), dtype=float)
    require(np.all(F[:2] == 0) and np.all(F[2:] == 1), '%s: mass outside the fitted support [%r, %r]: cdf%r = %r' % (cls, lo, hi, out_pts.tolist(), F.tolist()),
            tag='mass-outside')
    pdf = np.asarray(value(m.pdf, out_pts, what='pdf'), dtype=float)
    require(np.all(pdf == 0), '%s: density outside the fitted support: %r' % (cls, pdf), tag='density-outside')
    q = np.asarray(value(m.ppf, np.array([0.0, 1e-9, 0.5, 1 - 1e-9, 1.0]), what='ppf'), dtype=float)
    require(np.all(q >= lo - tol) and np.all(q <= hi + tol), '%s: percent_point leaves the support [%r,%r]: %r' % (cls, lo, hi, q), tag='ppf-outside')
    s = np.asarray(value(m.sample, 200, what='sample'), dtype=float)
    require(np.all(s >= lo - tol) and np.all(s <= hi + tol), '%s: sample leaves the support [%r,%r]: min %r max %r' % (cls, lo, hi, s.min(), s.max()), tag='sample-outside')
    return {'nontrivial': True, 'classes': ['cls:' + cls, 'user-bounds' if user else 'fitted-bounds'] + (['zero-user-bound'] if user and 0.0 in (umin, umax) else []) + (['one-sided-user-bound'] if user and case.get('one_sided') else [])}


# ---- (iv) KDE is the kernel estimate ---------------------------------------------------------------

def kde_strategy():
    from checks import c03

    return st.fixed_dictionaries({
        'data': c03.data_strategy(600),
        'bw': st.one_of(st.sampled_from([None, 'scott', 'silverman']), st.floats(0.05, 1.0)),
        'weights': st.sampled_from([None, None, 'random']),
        'sample_size': st.one_of(st.none(), st.none(), st.integers(50, 400)),
        'seed': S.SEEDS, 'xq': st.lists(st.floats(-0.5, 1.5), min_size=1, max_size=20),
    })


def kernel_sum(x, data, w, h):
    z = (x[:, None] - data[None, :]) / h
    return (np.exp(-0.5 * z * z) / (h * np.sqrt(2 * np.pi))) @ w


def bandwidth(data, w, rule):
    neff = 1.0 / np.sum(w ** 2)
    if rule is None or rule == 'scott':
        factor = neff ** (-1.0 / 5)
    elif rule == 'silverman':
        factor = (neff * 3.0 / 4.0) ** (-1.0 / 5)
    else:
        factor = float(rule)
    mu = np.sum(w * data)
    var = np.sum(w * (data - mu) ** 2) / (1 - np.sum(w ** 2))
    return factor * np.sqrt(var)


def oracle_kde(case):
    from checks import c03
    from copulas.univariate import GaussianKDE

    x = c03.make_data(case['data'])
    if len(np.unique(x)) < 5:
        return {'nontrivial': False, 'classes': ['too-few-distinct']}
    n = len(x)
    weights = None
    if case['weights'] == 'random' and case['sample_size'] is None:
        weights = np.random.RandomState(case['seed']).uniform(0.1, 1.0, size=n)
    np.random.seed(case['seed'] % (2 ** 32))
    m = GaussianKDE(bw_method=case['bw'], weights=weights, sample_size=case['sample_size'])
    value(m.fit, x.copy(), what='GaussianKDE.fit')
    ds = np.asarray(value(m.to_dict, what='to_dict')['dataset'], dtype=float).ravel()
    cls = ['bw:%s' % (case['bw'] if not isinstance(case['bw'], float) else 'factor'), 'weights' if weights is not None else 'unweighted']
    if case['sample_size'] is None:
        require(ds.shape == x.shape and np.array_equal(ds, x), "without sample_size the serialised dataset differs from the training data", tag='dataset')
        w = np.full(n, 1.0 / n) if weights is None else weights / weights.sum()
    else:
        require(ds.shape == (case['sample_size'],), 'sample_size=%d but the model keeps %d points' % (case['sample_size'], ds.size), tag='sample-size')
        # the resample must come from the training KDE with the requested bandwidth
        h0 = bandwidth(x, np.full(n, 1.0 / n), case['bw'])
        dist = vs.ks_distance(ds, lambda t: stats.norm.cdf((np.asarray(t)[:, None] - x[None, :]) / h0).mean(axis=1))
        eps = vs.dkw_eps(len(ds))
        require(dist <= eps, 'sample_size=%d: the kept points are not a sample of the training KDE (KS %.3f > %.3f)' % (len(ds), dist, eps), tag='resample-law')
        w = np.full(len(ds), 1.0 / len(ds))
        cls.append('sample_size')
    h = bandwidth(ds, w, case['bw'])
    lo, hi = ds.min(), ds.max()
    pts = lo + np.array(case['xq']) * (hi - lo)
    mine = kernel_sum(pts, ds, w, h)
    got = np.asarray(value(m.probability_density, pts, what='probability_density'), dtype=float)
    err = np.abs(got - mine) / np.maximum(mine, 1e-300)
    # conditioning: x - x_i carries an absolute rounding error of ~ulp(|x|), amplified by z/h in the exponent
    zmin = np.min(np.abs(pts[:, None] - ds[None, :]), axis=1) / h
    rtol = 1e-9 + 16 * np.finfo(float).eps * (np.abs(pts) + np.max(np.abs(ds))) / h * (1 + zmin)
    ok = (err <= rtol) | (np.abs(got - mine) <= 1e-300)
    require(ok.all(), 'GaussianKDE(bw_method=%r%s) density %r differs from the kernel estimate %r (h=%.6g) at x=%r'
            % (case['bw'], ', weights' if weights is not None else '', got[~ok][:2], mine[~ok][:2], h, pts[~ok][:2]), tag='kernel-estimate')
    # and the CDF is the matching kernel CDF (up to the documented mass below min-5std)
    Fm = (stats.norm.cdf((pts[:, None] - ds[None, :]) / h) @ w)
    Fg = np.asarray(value(m.cumulative_distribution, pts, what='cumulative_distribution'), dtype=float)
    # documented design: the CDF is net of the kernel mass below min - 5*std(dataset)
    L = float(stats.norm.cdf((lo - 5 * np.std(ds) - ds) / h) @ w)
    require(np.all(Fg <= Fm + 1e-12) and np.all(Fg >= Fm - L - 1e-12), 'GaussianKDE CDF differs from the kernel CDF by %.3g (allowed: the mass %.3g below min-5std)'
            % (np.max(np.abs(Fg - Fm)), L), tag='kernel-cdf')
    return {'nontrivial': n >= 50, 'classes': cls}


SUBS = [
    Sub('recovery_every_dataset', every_strategy(), oracle_every, quick=480, thorough=16000, use_target=True),
    Sub('recovery_mle_80pct', None, oracle_mle, enumerate_cases=mle_cells),
    Sub('recovery_mle_80pct_pooled', None, oracle_mle_pooled, enumerate_cases=lambda tier, seed: []),
    Sub('closed_form', closed_strategy(), oracle_closed, quick=800, thorough=16000),
    Sub('bounded_support', bounded_strategy(), oracle_bounded, quick=480, thorough=12000),
    Sub('kde_kernel_estimate', kde_strategy(), oracle_kde, quick=640, thorough=16000),
]
