"""C14 - serialisation round-trips preserve every model's observable behaviour."""

import json
import os
import shutil
import tempfile

import numpy as np
from hypothesis import strategies as st

from checks import c03, c10, c16
from vlib import models as M
from vlib import observe as O
from vlib import strategies as S
from vlib.harness import Sub, Violation, call, require, value

PROPERTY_ID = 'C14'
LEVEL = 'exploration'
RULE = ('model spec (every univariate class with options incl. KDE bandwidth/sample_size, truncation bounds, the selecting '
        'Univariate wrapper; Clayton/Frank/Gumbel fitted on generated pseudo-observations incl. tau=+-1 edge data; '
        'GaussianMultivariate with generated per-column configuration incl. constant columns; vines of the three types; '
        'fitted or unfitted) x route (own from_dict(to_dict), the generic Univariate/Bivariate/Multivariate.from_dict, '
        'save/load in a temp dir, JSON encode/decode of the dict for univariate, bivariate and Gaussian) x 1..3 repeated '
        'trips. Oracle: observational equality (vlib.observe): family, to_dict(), cdf/pdf/ppf or h/likelihood on generated '
        'probes - exactly equal - and three successive sample() calls under the same seed. Non-trivial: fitted, non-constant '
        'model; distinct = distinct generated case.')
ASSUMPTIONS = [
    'observation uses the public API only; sample streams are compared after set_random_state(seed) on both sides',
    'unfitted models are round-tripped through the routes that accept them (dict for bivariate/vine, pickle for all)',
]


def spec_strategy():
    uni = st.fixed_dictionaries({'kind': st.just('univariate'), 'model': c03.model_strategy(),
                                 'data': st.one_of(c03.data_strategy(300), c03.data_strategy(300),
                                                   st.fixed_dictionaries({'shape': st.just('constant'), 'value': st.floats(-100, 100), 'n': st.integers(2, 30)})),
                                 'fitted': st.sampled_from([True, True, True, True, False])})
    biv = st.fixed_dictionaries({'kind': st.just('bivariate'), 'family': st.sampled_from(c10.FAMS), 'data': c10.data_strategy(valid_only=True),
                                 'fitted': st.sampled_from([True, True, True, False])})

    @st.composite
    def gauss(draw):
        table = draw(S.table_spec(2, 4, 30, 200))
        d = table['corr']['d']
        return {'kind': 'gaussian', 'table': table, 'config': draw(M.gaussian_config(d, classes=M.FAST_CLASSES + ['StudentTUnivariate'])),
                'fitted': draw(st.sampled_from([True, True, True, False]))}

    @st.composite
    def vine(draw):
        c = draw(c16.vine_case(2, 5, 30, 80))
        c['kind'] = 'vine'
        c['fitted'] = draw(st.sampled_from([True, True, True, False]))
        return c

    # the selecting wrapper over *configured instances* (options that only live on the candidate prototype)
    inst = st.lists(st.sampled_from([{'cls': 'GaussianKDE', 'opts': {'bw_method': 0.1}}, {'cls': 'GaussianKDE', 'opts': {'bw_method': 'silverman'}},
                                     {'cls': 'GaussianKDE', 'opts': {'bw_method': 0.5}}, {'cls': 'GaussianUnivariate', 'opts': {}}]), min_size=1, max_size=2)
    wrapped = st.fixed_dictionaries({'kind': st.just('univariate'),
                                     'model': st.fixed_dictionaries({'cls': st.just('Univariate'), 'opts': st.fixed_dictionaries({'candidate_instances': inst})}),
                                     'data': c03.data_strategy(300), 'fitted': st.just(True)})
    return st.one_of(uni, uni, wrapped, biv, gauss(), vine())


def strategy():
    return st.fixed_dictionaries({'spec': spec_strategy(), 'route': st.sampled_from(['from_dict', 'generic_from_dict', 'save_load', 'json']),
                                  'trips': st.integers(1, 3), 'seed': S.SEEDS, 'probe_seed': S.SEEDS,
                                  'prefit_seed': st.one_of(st.none(), st.none(), S.SEEDS)})


def build_and_fit(spec, seed, prefit_seed=None):
    """Returns (model, probes, fitted_ok).  With prefit_seed the same object is first fitted on other data (and used)."""
    kind = spec['kind']
    np.random.seed(seed % (2 ** 32))
    rs = np.random.RandomState(seed)
    if kind == 'univariate':
        data = c03.make_data(spec['data'])
        model = c03.build_model(spec['model'], data if len(np.unique(data)) > 1 else np.array([0.0, 1.0]))
        lo, hi = float(np.min(data)), float(np.max(data))
        span = (hi - lo) or max(abs(lo), 1.0)
        probes = {'x': (lo + rs.uniform(-0.3, 1.3, size=9) * span).tolist() + [lo, hi], 'q': [0.0, 1e-9, 0.01, 0.3, 0.5, 0.77, 0.99, 1 - 1e-9, 1.0]}
        if spec['fitted']:
            if prefit_seed is not None:
                rs0 = np.random.RandomState(prefit_seed)
                call(model.fit, rs0.normal(size=40) * 3.0 + 50.0, allow=(Exception,))
                call(lambda: (model.cdf(np.array([50.0])), model.sample(2)), allow=(Exception,))
            k, e = call(model.fit, data.copy(), allow=(Exception,))
            if k == 'exc':
                return None, None, False
        return model, probes, True
    if kind == 'bivariate':
        model = c10.make(spec['family'])
        probes = {'X': np.clip(rs.uniform(size=(8, 2)), 1e-3, 1 - 1e-3).tolist()}
        if spec['fitted']:
            X = c10.build(spec['data'])
            if prefit_seed is not None:
                U0 = np.random.RandomState(prefit_seed).uniform(size=(40, 1))
                call(model.fit, np.column_stack((U0[:, 0], np.clip(U0[:, 0] ** 2 + 0.01, 0, 1))), allow=(Exception,))
                call(model.sample, 2, allow=(Exception,))
            k, e = call(model.fit, X.copy(), allow=(ValueError,))
            if k == 'exc':
                return None, None, False
        return model, probes, True
    if kind == 'gaussian':
        df, _ = S.build_table(spec['table'])
        model = M.build_gaussian(spec['config'], list(df.columns))
        X = df.to_numpy().astype(float)
        rows = X[rs.randint(0, len(X), size=5)] + rs.normal(size=(5, X.shape[1])) * 0.1 * (np.std(X, axis=0) + 1e-12)
        probes = {'rows': rows.tolist()}
        if spec['fitted']:
            if prefit_seed is not None:
                other = M.variant_table(df, prefit_seed)
                value(model.fit, other, what='GaussianMultivariate.fit (earlier table)')
                call(lambda: (model.pdf(other.head(2)), model.sample(2), model.sample(2, conditions={other.columns[0]: float(other.iloc[0, 0])})), allow=(Exception,))
            value(model.fit, df.copy(), what='GaussianMultivariate.fit')
        return model, probes, True
    if kind == 'vine':
        from copulas.multivariate import VineCopula

        df = c16.build(spec)
        probes = {'u': np.clip(rs.uniform(size=df.shape[1]), 0.02, 0.98).tolist(), 'n_sample': 2}
        if spec['fitted']:
            model, k, e = c16.fit_vine(dict(spec, prefit_seed=prefit_seed), df)
            if k == 'exc':
                return None, None, False
        else:
            model = VineCopula(spec['vine_type'])
        return model, probes, True
    raise ValueError(kind)


def roundtrip(model, route, tmpdir, i):
    from copulas.bivariate.base import Bivariate
    from copulas.multivariate.base import Multivariate
    from copulas.univariate import Univariate

    kind = O.kind_of(model)
    if route == 'save_load':
        path = os.path.join(tmpdir, 'model-%d.bin' % i)
        value(model.save, path, what='%s.save' % type(model).__name__)
        loader = {'univariate': Univariate, 'bivariate': Bivariate, 'gaussian': Multivariate, 'vine': Multivariate}[kind]
        if kind == 'bivariate':
            return value(type(model).load, path, what='load') if i % 2 else value(Bivariate.load, path, what='Bivariate.load')
        first = value(loader.load, path, what='load')
        # the file is read a second time after the first copy has been put to other use (re-fitted on another small table):
        # what comes back is again what was saved
        try:
            import pandas as pd

            if kind == 'univariate':
                first.fit(np.array([1.0, 2.0, 4.0, 8.0]))
            else:
                first.fit(pd.DataFrame(np.random.RandomState(3).normal(size=(12, 2)), columns=['p', 'q']))
        except Exception:
            pass
        return value(loader.load, path, what='load (second time)')
    d = value(model.to_dict, what='%s.to_dict' % type(model).__name__)
    if route == 'json':
        d = json.loads(json.dumps(d))
    if route == 'generic_from_dict' or (route == 'json' and i % 2 == 0):
        gen = {'univariate': Univariate, 'bivariate': Bivariate, 'gaussian': Multivariate, 'vine': Multivariate}[kind]
        return value(gen.from_dict, d, what='%s.from_dict (generic)' % gen.__name__)
    cls = type(model)
    if kind == 'univariate' and cls.__name__ == 'Univariate':
        cls = Univariate
    return value(cls.from_dict, d, what='%s.from_dict' % cls.__name__)


def oracle(case):
    from copulas.errors import NotFittedError

    spec, route = case['spec'], case['route']
    kind = spec['kind']
    model, probes, ok = build_and_fit(spec, case['seed'], case.get('prefit_seed'))
    cls = ['kind:' + kind, 'route:' + route, 'fitted' if spec['fitted'] else 'unfitted']
    if spec['fitted'] and case.get('prefit_seed') is not None:
        cls.append('refitted-model')
    if not ok:
        return {'nontrivial': False, 'classes': cls + ['fit-rejected']}
    if route == 'json' and kind == 'vine':
        route = 'from_dict'            # vine dicts hold sets and enums: JSON is not claimed for them
    if not spec['fitted'] and kind in ('univariate', 'gaussian') and route != 'save_load':
        # to_dict of an unfitted univariate / Gaussian model raises NotFittedError by contract
        k, e = call(model.to_dict, allow=(Exception,))
        require(k == 'exc' and isinstance(e, NotFittedError), 'to_dict() of an unfitted %s: %r' % (type(model).__name__, e), tag='unfitted-to_dict')
        route = 'save_load'
    tmpdir = tempfile.mkdtemp(prefix='verif-c14-')
    try:
        before = O.observe(model, probes, seed=case['probe_seed'])
        current = model
        for i in range(case['trips']):
            current = roundtrip(current, route, tmpdir, i)
            after = O.observe(current, probes, seed=case['probe_seed'])
            diff = O.first_difference(before, after)
            require(diff is None, '%s %s via %s, trip %d: observable behaviour changed at %s' % (
                'fitted' if spec['fitted'] else 'unfitted', describe(spec), route, i + 1, diff), tag='roundtrip', detail={'diff': diff})
    finally:
        shutil.rmtree(tmpdir, ignore_errors=True)
    if not spec['fitted']:
        # still unfitted: queries raise NotFittedError
        q = {'univariate': lambda m: m.cdf(np.array([0.5])), 'bivariate': lambda m: m.cdf(np.array([[0.5, 0.5]])),
             'gaussian': lambda m: m.sample(1), 'vine': lambda m: m.sample(1)}[kind]
        k, e = call(q, current, allow=(Exception,))
        require(k == 'exc' and isinstance(e, NotFittedError), 'round-tripped unfitted %s answers a query with %r' % (describe(spec), e), tag='unfitted')
    nontrivial = spec['fitted'] and not (kind == 'univariate' and spec['data'].get('shape') == 'constant')
    if kind == 'univariate':
        cls.append('model:' + spec['model']['cls'])
    if kind == 'vine':
        cls.append('vine:' + spec['vine_type'])
    return {'nontrivial': bool(nontrivial), 'classes': cls}


def describe(spec):
    if spec['kind'] == 'univariate':
        return '%s%r' % (spec['model']['cls'], spec['model']['opts'])
    if spec['kind'] == 'bivariate':
        return spec['family']
    if spec['kind'] == 'vine':
        return 'VineCopula(%r)' % spec['vine_type']
    return 'GaussianMultivariate'


SUBS = [
    Sub('roundtrip', strategy(), oracle, quick=800, thorough=76800),
]
