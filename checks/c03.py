"""C03 - every fitted univariate obeys the laws of a distribution function."""

import numpy as np
from hypothesis import strategies as st

from vlib import models as M
from vlib import strategies as S
from vlib.harness import Sub, Violation, call, require, target, value

PROPERTY_ID = 'C03'
LEVEL = 'exploration'
RULE = ('sample recipe (normal, lognormal, bimodal, uniform, integer ties, heavy-tailed t2, exponential, beta; n 5..2000, '
        'location +-1e3, scale 10^U(-9,3); or a constant sample) x model class with options (GaussianKDE bandwidth '
        'scott/silverman/factor in (0.05,1], sample_size; TruncatedGaussian with/without enclosing user bounds; Univariate '
        'with candidate lists / parametric+bounded filters; every scipy-backed family) x evaluation points (training '
        'quantiles, far outside, +-inf) x probabilities (uniform, within 10^-k of 0/1 for k<=12, exact 0/1). Oracle: the '
        'distribution-function laws listed in the property. Non-trivial: non-constant fit with >= 5 distinct values on '
        'which at least 3 law groups were evaluated; distinct = distinct generated case.')
ASSUMPTIONS = [
    'a fit() that raises on a sample is a rejected input for this property (counted per class)',
    'KDE: the CDF is defined net of the mass below min-5*std (<= 4e-6), so range/limit checks carry 1e-5 slack; probabilities '
    'within float32 eps of 0/1 map to -inf/+inf by design and are only required to be consistent with that',
    'integral check: composite 20-point Gauss-Legendre on quantile knots, error estimate = |fine - coarse knot set|; tolerance 1e-6 + 10 x estimate, estimates above 1e-6 are inconclusive',
]
EPS32 = float(np.finfo(np.float32).eps)
GL20 = np.polynomial.legendre.leggauss(20)
GL10 = np.polynomial.legendre.leggauss(10)

SHAPES = ['normal', 'lognormal', 'bimodal', 'uniform', 'ties', 'heavy', 'expo', 'beta']


def data_strategy(nmax=2000):
    return st.fixed_dictionaries({
        'shape': st.sampled_from(SHAPES), 'n': st.one_of(st.integers(5, 60), st.integers(5, nmax)), 'seed': S.SEEDS,
        'loc': st.one_of(st.floats(-1000, 1000), st.sampled_from([0.0, 0.0, 1000.0])), 'scale_exp': st.one_of(st.floats(-2, 3), st.floats(-6, 3), st.floats(-9, -5)),
    })


def make_data(spec):
    if spec['shape'] == 'constant':
        return np.full(spec['n'], float(spec['value']))
    rs = np.random.RandomState(spec['seed'])
    n = spec['n']
    sh = spec['shape']
    if sh == 'normal':
        x = rs.normal(size=n)
    elif sh == 'lognormal':
        x = rs.lognormal(size=n)
    elif sh == 'bimodal':
        x = np.where(rs.uniform(size=n) < 0.4, rs.normal(size=n), 7 + 0.5 * rs.normal(size=n))
    elif sh == 'uniform':
        x = rs.uniform(size=n)
    elif sh == 'ties':
        x = np.round(rs.normal(size=n) * 3)
        x[:5] = np.arange(5)
    elif sh == 'heavy':
        x = rs.standard_t(2, size=n)
    elif sh == 'expo':
        x = rs.exponential(size=n)
    else:
        x = rs.beta(0.7, 2.5, size=n)
    loc = spec['loc'] if spec['scale_exp'] >= -6 else spec['loc'] * 10.0 ** (spec['scale_exp'] + 6)     # keep |loc|/scale <= 1e9
    return loc + 10.0 ** spec['scale_exp'] * x


def model_strategy():
    plain = st.sampled_from(['GaussianUnivariate', 'UniformUnivariate', 'BetaUnivariate', 'GammaUnivariate',
                             'StudentTUnivariate', 'LogLaplace']).map(lambda c: {'cls': c, 'opts': {}})
    kde = st.fixed_dictionaries({'cls': st.just('GaussianKDE'), 'opts': st.fixed_dictionaries({
        'bw_method': st.one_of(st.sampled_from([None, 'scott', 'silverman', 1.0]), st.floats(0.05, 1.0), st.floats(1.0, 4.0)),
        'sample_size': st.one_of(st.none(), st.none(), st.integers(20, 200)),
        # clearly non-uniform kernel weights (one per training value; ignored together with sample_size)
        'weights_seed': st.one_of(st.none(), st.none(), st.integers(0, 10 ** 6))})})
    trunc = st.fixed_dictionaries({'cls': st.just('TruncatedGaussian'), 'opts': st.one_of(
        st.just({}), st.fixed_dictionaries({'lo_frac': st.floats(0.0, 2.0), 'hi_frac': st.floats(0.0, 2.0)}),
        st.fixed_dictionaries({'lo_frac': st.floats(0.0, 2.0), 'hi_frac': st.floats(0.0, 2.0), 'zero_bound': st.just(True)}),
        st.fixed_dictionaries({'lo_frac': st.floats(0.0, 2.0), 'hi_frac': st.floats(0.0, 2.0), 'one_sided': st.sampled_from(['min', 'max'])}))})
    wrapper = st.fixed_dictionaries({'cls': st.just('Univariate'), 'opts': st.one_of(
        st.fixed_dictionaries({'candidates': st.lists(st.sampled_from(M.FAST_CLASSES + ['StudentTUnivariate']), min_size=1, max_size=3, unique=True)}),
        st.fixed_dictionaries({'parametric': st.just('PARAMETRIC'), 'bounded': st.sampled_from(['BOUNDED', 'UNBOUNDED', 'SEMI_BOUNDED'])}),
        st.fixed_dictionaries({'parametric': st.just('NON_PARAMETRIC')}),
        # candidates given as configured instances
        st.fixed_dictionaries({'candidate_instances': st.lists(st.sampled_from([
            {'cls': 'GaussianKDE', 'opts': {'bw_method': 0.1}}, {'cls': 'GaussianKDE', 'opts': {'bw_method': 'silverman'}},
            {'cls': 'GaussianUnivariate', 'opts': {}}, {'cls': 'GammaUnivariate', 'opts': {}}]), min_size=1, max_size=2)}),
        # selection on a subsample, with a seeded model
        st.fixed_dictionaries({'candidates': st.just(['GaussianUnivariate', 'UniformUnivariate', 'GammaUnivariate']),
                               'selection_sample_size': st.integers(5, 40), 'random_state': st.integers(0, 1000)}))})
    return st.one_of(plain, plain, kde, kde, trunc, wrapper)


def build_model(spec, data, random_state=None):
    import copulas.univariate as cu

    opts = dict(spec['opts'])
    cls = spec['cls']
    if cls == 'TruncatedGaussian':
        if 'lo_frac' in opts:
            rng = float(np.ptp(data)) or 1.0
            zero = opts.get('zero_bound')
            opts = {'minimum': float(np.min(data) - opts['lo_frac'] * rng - 1e-6 * rng), 'maximum': float(np.max(data) + opts['hi_frac'] * rng + 1e-6 * rng)}
            if zero and np.min(data) > 0:
                opts['minimum'] = 0.0          # a bound that is exactly zero (falsy) is a legitimate user bound
            elif zero and np.max(data) < 0:
                opts['maximum'] = 0.0
            if spec['opts'].get('one_sided') == 'min':
                opts.pop('maximum')        # only one bound given by the user
            elif spec['opts'].get('one_sided') == 'max':
                opts.pop('minimum')
    if cls == 'GaussianKDE' and 'weights_seed' in opts:
        ws = opts.pop('weights_seed')
        if ws is not None and opts.get('sample_size') is None:
            opts['weights'] = np.random.RandomState(ws).uniform(0.05, 1.0, size=len(data)) ** 3
            if ws % 2:
                opts['weights'] = opts['weights'].tolist()       # a plain list is as good as an array
    if cls == 'Univariate':
        if 'candidate_instances' in opts:
            opts['candidates'] = [M.uni_class(c['cls'])(**c['opts']) for c in opts.pop('candidate_instances')]
        elif 'candidates' in opts:
            opts['candidates'] = [M.uni_class(c) for c in opts['candidates']]
        if 'parametric' in opts:
            opts['parametric'] = cu.ParametricType[opts['parametric']]
        if 'bounded' in opts:
            opts['bounded'] = cu.BoundedType[opts['bounded']]
    if random_state is not None:
        opts['random_state'] = random_state
    for k in ('lo_frac', 'hi_frac', 'zero_bound', 'one_sided'):
        opts.pop(k, None)
    return M.uni_class(cls)(**opts)


def probs_strategy():
    p = st.one_of(
        st.floats(1e-12, 1 - 1e-12), st.floats(0.01, 0.99), st.floats(0.01, 0.99),
        st.builds(lambda e, top: (1.0 - 10.0 ** e) if top else 10.0 ** e, st.floats(-12, -1), st.booleans()),
        st.sampled_from([0.0, 1.0]))
    return st.lists(p, min_size=1, max_size=25)


def strategy():
    return st.fixed_dictionaries({
        'data': data_strategy(), 'model': model_strategy(), 'probs': probs_strategy(),
        'xq': st.lists(st.floats(-0.2, 1.2), min_size=1, max_size=15),       # positions relative to the data range
        'far': st.floats(2.0, 1e6), 'p1': st.floats(1e-3, 0.999), 'p2': st.floats(1e-3, 0.999), 'seed': S.SEEDS,
        # earlier life of the object: fitted on a constant (0 is falsy) or on other data before the fit under test
        'prefit': st.one_of(st.none(), st.none(), st.sampled_from(['const:0.0', 'const:3.5', 'const:-2.0', 'data'])),
    })


def inner_name(m):
    inst = getattr(m, '_instance', None)
    return type(inst).__name__ if inst is not None else type(m).__name__


def f(m, meth, x):
    name = '%s.%s' % (inner_name(m), meth)
    out = np.asarray(value(getattr(m, meth), np.asarray(x, dtype=float), what=name), dtype=float)
    require(out.shape == np.shape(x), '%s returned shape %s for input shape %s' % (name, out.shape, np.shape(x)), tag='shape')
    return out


def integral_check(m, a, b, kde, what):
    """int_a^b pdf = cdf(b) - cdf(a) with composite Gauss-Legendre on quantile knots."""
    pa, pb = f(m, 'cumulative_distribution', np.array([a, b]))
    if not (pb - pa > 1e-6) or not np.isfinite([a, b]).all():
        return 'skipped'
    pd_ = {} if kde else value(m.to_dict, what='to_dict')
    mag = abs(float(pd_.get('loc', 0.0))) + abs(float(pd_.get('scale', 0.0)))
    if (b - a) < 1e6 * np.finfo(float).eps * max(abs(a), abs(b), mag):
        return 'skipped'                 # the interval is at the floating-point resolution of x
    shapes = [float(pd_[k]) for k in ('a', 'b', 'c', 'df') if k in pd_ and inner_name(m) != 'TruncatedGaussian']
    extreme = any((v > 1e5) or (v < 0.05) for v in shapes)
    nk = 513 if kde else 129
    tot = {}
    for name, count, rule in (('fine', 2 * nk - 1, GL20), ('coarse', nk, GL20), ('fine10', 2 * nk - 1, GL10)):
        qs = np.linspace(pa, pb, count)[1:-1]
        qs = qs[(qs > EPS32 * 2) & (qs < 1 - EPS32 * 2)]
        knots = f(m, 'percent_point', qs) if len(qs) else np.array([])
        knots = np.unique(np.concatenate(([a], knots[(knots > a) & (knots < b)], [b])))
        lo, hi = knots[:-1], knots[1:]
        half, mid = (hi - lo) / 2, (hi + lo) / 2
        xs, ws = rule
        pts = mid[:, None] + half[:, None] * xs[None, :]
        vals = f(m, 'probability_density', pts.ravel()).reshape(pts.shape)
        vals = np.where(np.isfinite(vals), vals, 0.0)           # integrable endpoint singularities (beta a<1)
        tot[name] = float(np.sum(half * (vals @ ws)))
    tot['20'] = tot['fine']
    est = max(abs(tot['fine'] - tot['coarse']), abs(tot['fine'] - tot['fine10']))
    if est > 1e-6:
        return 'inconclusive'
    if extreme:
        est += 1e-6                      # scipy special functions at extreme shape parameters
    gap = abs(tot['20'] - (pb - pa))
    require(gap <= 1e-6 + 10 * est, '%s: integral of probability_density over [%r, %r] is %.8f but the CDF increment is %.8f'
            % (what, a, b, tot['20'], pb - pa), tag='pdf-integral', detail={'a': float(a), 'b': float(b)})
    return 'checked'


def oracle(case):
    data = make_data(case['data'])
    if len(np.unique(data)) < 5:
        return {'nontrivial': False, 'classes': ['too-few-distinct']}
    spec = case['model']
    np.random.seed(case['seed'] % (2 ** 32))
    m = build_model(spec, data)
    pre = case.get('prefit')
    if pre:
        before = np.full(6, float(pre.split(':')[1])) if pre.startswith('const:') else np.random.RandomState(case['seed']).normal(size=30) * 3.0 - 40.0
        call(m.fit, before, allow=(Exception,), what='fit (earlier data)')
        call(lambda: (m.cdf(before[:2]), m.sample(2)), allow=(Exception,), what='use of the earlier fit')
    kind, err = call(m.fit, data.copy(), allow=(Exception,), what='fit')
    if kind == 'exc':
        return {'nontrivial': False, 'classes': ['fit-raised:%s:%s' % (spec['cls'], type(err).__name__)]}
    if case['seed'] % 2:
        # a second live model of the same configuration on the mirrored sample (same spread, same kernel bandwidth, other
        # location), fitted and queried before the model under test is used: nothing of it may show in `m`
        try:
            byst = build_model(spec, -data)
            byst.fit(-data)
            byst.cdf(-data[:3])
            byst.percent_point(np.array([0.3, 0.6]))
        except Exception:
            pass
    name = inner_name(m)
    what = '%s%s fitted on %s(n=%d)' % (spec['cls'], '' if name == spec['cls'] else '->' + name, case['data']['shape'], len(data))
    kde = name == 'GaussianKDE'
    slack = 1e-5 if kde else 1e-12
    lo, hi = float(data.min()), float(data.max())
    rng = hi - lo
    groups = 0
    cls = ['model:' + spec['cls'], 'selected:' + name, 'data:' + case['data']['shape'], 'prefit:' + str(pre).split(':')[0]]

    # ---- 1. CDF: monotone, range, limits ----
    xs = np.sort(np.concatenate((lo + np.array(case['xq']) * rng, [lo - case['far'] * rng, hi + case['far'] * rng],
                                 data[:: max(1, len(data) // 20)], [-np.inf, np.inf])))
    F = f(m, 'cumulative_distribution', xs)
    require(not np.isnan(F).any(), '%s: cumulative_distribution returns NaN at %r' % (what, xs[np.isnan(F)][:3]), tag='cdf-nan')
    require(np.all(np.diff(F) >= -1e-12), '%s: cumulative_distribution decreases: %r at x=%r' % (what, np.diff(F)[np.diff(F) < -1e-12][:3], xs[:-1][np.diff(F) < -1e-12][:3]),
            tag='cdf-monotone')
    require(np.all((F >= -slack) & (F <= 1 + slack)), '%s: cumulative_distribution outside [0,1]: %r' % (what, F[(F < -slack) | (F > 1 + slack)][:3]), tag='cdf-range')
    require(abs(F[0]) <= slack and abs(F[-1] - 1) <= slack, '%s: cdf(-inf)=%r, cdf(+inf)=%r' % (what, F[0], F[-1]), tag='cdf-limits')
    groups += 1

    # ---- 2. density: non-negative, no NaN; log density ----
    fin = xs[np.isfinite(xs)]
    p = f(m, 'probability_density', fin)
    require(not np.isnan(p).any() and np.all(p >= 0), '%s: probability_density negative or NaN: %r at %r' % (what, p[~(p >= 0)][:3], fin[~(p >= 0)][:3]), tag='pdf-sign')
    lp = f(m, 'log_probability_density', fin)
    pos = np.isfinite(p) & (p > 1e-300)
    require(np.all(np.abs(lp[pos] - np.log(p[pos])) <= 1e-6 * (1 + np.abs(lp[pos]))), '%s: log_probability_density != log(probability_density): %r vs %r'
            % (what, lp[pos][:3], np.log(p[pos])[:3]), tag='logpdf')
    require(np.all(lp[np.isfinite(p) & (p == 0)] < -600), '%s: log density where the density is 0: %r' % (what, lp[p == 0][:3]), tag='logpdf')
    groups += 1

    # ---- 3. percent_point: monotone, discrete inverse ----
    q = np.sort(np.array(case['probs'], dtype=float))
    x = f(m, 'percent_point', q)
    require(not np.isnan(x).any(), '%s: percent_point returns NaN at q=%r' % (what, q[np.isnan(x)][:3]), tag='ppf-nan')
    with np.errstate(invalid='ignore'):
        mono = (x[1:] >= x[:-1]) | (x[1:] - x[:-1] >= -1e-9 * max(1.0, abs(lo), abs(hi)))
    require(np.all(mono), '%s: percent_point decreases: q=%r -> x=%r' % (what, q, x), tag='ppf-monotone')
    # KDE design: the CDF is net of the kernel mass outside [min-5std, max+5std] (<= 1e-5), and probabilities it cannot
    # reach map to -inf/+inf.  An infinite answer is therefore admissible only within 1e-5 of 0 or 1.
    if kde:
        zone = ((q <= 1e-5) & (x == -np.inf)) | ((q >= 1 - 1e-5) & (x == np.inf))
    else:
        zone = np.zeros(len(q), dtype=bool)
    chk = ~zone & (q > 0) & (q < 1)
    if chk.any():
        xc, qc = x[chk], q[chk]
        require(np.all(np.isfinite(xc)), '%s: percent_point(%r) = %r for a probability strictly inside (0,1)' % (what, qc[~np.isfinite(xc)][:3], xc[~np.isfinite(xc)][:3]),
                tag='ppf-infinite')
        dens_c = f(m, 'probability_density', xc)
        dens_c = np.where(np.isfinite(dens_c), dens_c, 0.0)
        pd_ = {} if kde else value(m.to_dict, what='to_dict')
        mag = abs(float(pd_.get('loc', 0.0))) + abs(float(pd_.get('scale', 0.0)))
        shapes = [float(pd_[k]) for k in ('a', 'b', 'c', 'df') if k in pd_ and name != 'TruncatedGaussian']
        extreme = any((v > 1e5) or (v < 0.05) for v in shapes)
        if extreme:
            cls.append('extreme-shape-parameters')      # scipy special functions lose accuracy: only weak checks
        # "continuous at floating point resolution": neighbours at the resolution of x = loc + scale*z
        delta = 8 * np.finfo(float).eps * np.maximum(np.abs(xc), mag)
        below = f(m, 'cumulative_distribution', xc - delta)
        above = f(m, 'cumulative_distribution', xc + delta)
        # KDE: the root finder resolves x to ~1e-9 of its bracket (C18) and never below a few ulp of |x|
        # (the solver also has an absolute floor of 2*eps ~ 4.4e-16 in x, visible for data scales below ~1e-7)
        tol = (1e-9 + (1e-9 * rng + 16 * np.finfo(float).eps * np.abs(xc) + 2e-15) * dens_c) if kde else (1e-9 if not extreme else 1e-5)
        bad = (below - tol > qc) | (above + tol < qc)
        require(not bad.any(), '%s: percent_point(%r)=%r but cdf just below/above is %r / %r' % (what, qc[bad][:2], xc[bad][:2], below[bad][:2], above[bad][:2]),
                tag='ppf-inverse')
        groups += 1

    # ---- 4. ppf(cdf(x)) = x where the density is positive ----
    xin = lo + np.clip(np.array(case['xq']), 0.0, 1.0) * rng
    Fin = f(m, 'cumulative_distribution', xin)
    ok = (Fin >= 1e-6) & (Fin <= 1 - 1e-6)
    if ok.any():
        back = f(m, 'percent_point', Fin[ok])
        dens = f(m, 'probability_density', xin[ok])
        pd2 = {} if kde else value(m.to_dict, what='to_dict')
        mag2 = abs(float(pd2.get('loc', 0.0))) + abs(float(pd2.get('scale', 0.0)))
        tolx = 1e-8 / np.maximum(dens, 1e-300) + 1e-9 * np.abs(xin[ok]) + 1e-12 * rng + 64 * np.finfo(float).eps * mag2
        if kde:
            tolx = tolx + 2e-15          # absolute floor of the root finder in x (2*eps_a), as in group 3
        good = np.abs(back - xin[ok]) <= tolx
        # flat stretches of the CDF (density ~ 0) make x non-unique: only the CDF value must agree
        if not good.all():
            Fb = f(m, 'cumulative_distribution', back[~good])
            require(np.all(np.abs(Fb - Fin[ok][~good]) <= 1e-9) and np.all(dens[~good] < 1e-6 / max(rng, 1e-300)),
                    '%s: percent_point(cdf(x)) = %r for x = %r (density %r)' % (what, back[~good][:3], xin[ok][~good][:3], dens[~good][:3]), tag='ppf-of-cdf')
        groups += 1

    # ---- 5. integral of the density ----
    p1, p2 = sorted((case['p1'], case['p2']))
    if p2 - p1 > 1e-3:
        ab = f(m, 'percent_point', np.array([p1, p2]))
        res = integral_check(m, float(ab[0]), float(ab[1]), kde, what)
        cls.append('integral:' + res)
        if res == 'checked':
            groups += 1
    return {'nontrivial': groups >= 3, 'classes': cls}


def constant_strategy():
    return st.fixed_dictionaries({
        'value': st.one_of(st.floats(-1e6, 1e6), st.sampled_from([0.0, -0.0, 1.0, 1e-300])), 'n': st.integers(1, 200),
        'model': model_strategy(), 'probs': probs_strategy(), 'offsets': st.lists(st.floats(-10, 10), min_size=1, max_size=10),
        'nsamp': st.integers(1, 50), 'seed': S.SEEDS, 'prefit': st.sampled_from([None, None, 'data', 'const']),
    })


def oracle_constant(case):
    c = float(case['value'])
    data = np.full(case['n'], c)
    spec = case['model']
    m = build_model(spec, data, random_state=case['seed'])
    if case.get('prefit'):
        before = np.random.RandomState(case['seed']).normal(size=30) * 2.0 + c + 1.0 if case['prefit'] == 'data' else np.full(4, c + 1.0)
        call(m.fit, before, allow=(Exception,), what='fit (earlier data)')
        call(lambda: (m.cdf(before[:2]), m.sample(2)), allow=(Exception,), what='use of the earlier fit')
    value(m.fit, data.copy(), what='%s.fit(constant)' % spec['cls'])
    what = '%s fitted on the constant %r' % (spec['cls'], c)
    span = max(abs(c), 1.0)
    xs = np.concatenate((c + np.array(case['offsets']) * span, [c, np.nextafter(c, -np.inf), np.nextafter(c, np.inf), -np.inf, np.inf]))
    F = f(m, 'cumulative_distribution', xs)
    want = (xs >= c).astype(float)
    require(np.array_equal(F, want), '%s: CDF is not the unit step at c: cdf(%r) = %r' % (what, xs[F != want][:3], F[F != want][:3]), tag='point-mass-cdf')
    q = np.array(case['probs'], dtype=float)
    x = f(m, 'percent_point', q)
    require(np.all(x == c), '%s: percent_point(%r) = %r' % (what, q[x != c][:3], x[x != c][:3]), tag='point-mass-ppf')
    s = np.asarray(value(m.sample, case['nsamp'], what='sample'), dtype=float)
    require(s.shape == (case['nsamp'],) and np.all(s == c), '%s: sample(%d) = %r' % (what, case['nsamp'], s[:5]), tag='point-mass-sample')
    return {'nontrivial': False, 'classes': ['constant:' + spec['cls']]}


SUBS = [
    Sub('laws', strategy(), oracle, quick=480, thorough=51200, use_target=False),
    Sub('point_mass', constant_strategy(), oracle_constant, quick=320, thorough=25600),
]
