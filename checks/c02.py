"""C02 - fitted Gaussian-copula correlation is a valid, correctly computed matrix."""

import numpy as np
from hypothesis import strategies as st
from scipy import stats

from vlib import models as M
from vlib import strategies as S
from vlib.harness import Sub, require, target, value

PROPERTY_ID = 'C02'
LEVEL = 'exploration'
RULE = ('Gaussian-copula tables (2..5 base columns, 9 marginal kinds incl. integer-valued ties and mixtures, factor / '
        'equicorrelation / AR(1) / block correlations, n 20..1000, str/int/mixed column labels) plus up to two derived '
        'columns (duplicate, negation, affine, monotone transform, constant, near-duplicate), optionally one or two columns shifted '
        'far from the origin (|offset| = 10^4..10^9 standard deviations: timestamps, ids) x marginal configuration '
        '(class, FQN, instance with options, per-column dict with missing keys, default selection in a small share). '
        'Oracle: independent recomputation (numpy corrcoef of Phi^-1(clip(F_k(x)))) and validity invariants. '
        'Non-trivial: >= 3 columns or a degenerate column pair; distinct = distinct generated case.')
ASSUMPTIONS = [
    'the fitted marginal CDFs are taken from the public univariates of the fitted model (their correctness is C03/C04)',
    'ridge: an entry may differ from the recomputation by EPSILON on the diagonal only if the recomputed matrix has condition number > 1e12 (near-singular: the exact threshold 1/eps is numerical noise there)',
]
EPS32 = float(np.finfo(np.float32).eps)


def strategy(allow_default):
    @st.composite
    def cases(draw):
        table = draw(S.table_spec(2, 5, 20, 1000))
        d = table['corr']['d']
        ops = draw(M.derived_ops(d))
        total = d + len(ops)
        cfg = draw(M.gaussian_config(total, classes=M.FAST_CLASSES if not allow_default else M.UNI_CLASSES,
                                     allow_default=allow_default))
        if allow_default:
            table['n'] = min(table['n'], 300)
        # columns far from the origin relative to their spread (timestamps, ids): x + sign * 10^e * sd(x), e in [4, 9]
        offsets = draw(st.one_of(st.just([]), st.just([]), st.lists(st.fixed_dictionaries({
            'col': st.integers(0, total - 1), 'exp': st.floats(4.0, 9.0), 'neg': st.booleans()}), min_size=1, max_size=2)))
        return {'table': table, 'derived': ops, 'config': cfg, 'prefit_seed': draw(st.one_of(st.none(), st.none(), S.SEEDS)),
                'offsets': offsets,
                # the table under test given as a plain array (its training columns are then 0..d-1), possibly after an
                # earlier fit of the same object on a labelled DataFrame
                'as_array': draw(st.sampled_from([False, False, False, True]))}

    return cases()


def oracle(case):
    import pandas as pd

    df, _ = S.build_table(case['table'])
    df = M.add_derived(df, case['derived'], case['table']['seed'])
    names = list(df.columns)
    d = len(names)
    for off in case.get('offsets') or []:
        col = names[off['col'] % d]
        x = df[col].to_numpy().astype(float)
        df[col] = x + (-1.0 if off['neg'] else 1.0) * 10.0 ** off['exp'] * (float(np.std(x)) or 1.0)
    as_array = bool(case.get('as_array')) and case['config']['mode'] == 'single'
    model = M.build_gaussian(case['config'], names)
    if case.get('prefit_seed') is not None:
        # history: the same object was fitted on another table (same schema) before
        value(model.fit, M.variant_table(df, case['prefit_seed']), what='GaussianMultivariate.fit (earlier table)')
    if as_array:
        value(model.fit, df.to_numpy().astype(float), what='GaussianMultivariate.fit (ndarray)')
        df = df.copy()
        df.columns = list(range(d))
        names = list(range(d))
    else:
        value(model.fit, df.copy(), what='GaussianMultivariate.fit')
    corr = model.correlation
    require(isinstance(corr, pd.DataFrame), 'correlation is %s, not a DataFrame' % type(corr).__name__, tag='type')
    require(list(corr.index) == names and list(corr.columns) == names,
            'correlation labelled %r / %r, training columns %r' % (list(corr.index), list(corr.columns), names), tag='labels')
    C = corr.to_numpy().astype(float)
    require(C.shape == (d, d), 'correlation shape %s for %d columns' % (C.shape, d), tag='shape')
    require(np.all(np.isfinite(C)), 'correlation contains non-finite entries', tag='finite')
    require(np.max(np.abs(C - C.T)) <= 1e-12, 'correlation not symmetric (%.3g)' % np.max(np.abs(C - C.T)), tag='symmetric')
    require(np.all(np.abs(C) <= 1 + 2 * EPS32), 'correlation entry outside [-1,1]: %r' % C[np.abs(C) > 1 + 2 * EPS32][:3], tag='range')
    w = np.linalg.eigvalsh((C + C.T) / 2)
    require(w.min() >= -1e-9, 'correlation not PSD: min eigenvalue %.3g' % w.min(), tag='psd')
    # independent recomputation of the normal scores
    const = np.array([df[c].nunique() == 1 for c in names])
    Z = np.empty((len(df), d))
    for k, (name, uni) in enumerate(zip(names, model.univariates)):
        u = np.asarray(value(uni.cdf, df[name].to_numpy(), what='univariate.cdf'), dtype=float)
        Z[:, k] = stats.norm.ppf(np.clip(u, EPS32, 1 - EPS32))
    if not np.all(np.isfinite(Z)):
        # a marginal whose CDF is NaN on its own training data (scipy MLE gone wrong): C03/C04 territory,
        # Pearson of the scores is undefined -> precondition of this property not met
        return {'nontrivial': False, 'classes': ['precondition:nan-marginal-cdf']}
    flat = np.ptp(Z, axis=0) == 0            # constant normal scores: correlation undefined -> 0
    require(np.all(flat[const]), 'a constant column has non-constant normal scores', tag='constant-scores')
    # constant scores on a non-constant column are only a matter of the marginal (C03/C04) when its family is fitted by
    # numerical MLE (which may degenerate); the closed-form / kernel marginals cannot lose a column that is non-constant
    # well above floating-point resolution - the model treated the column as constant
    for k in np.nonzero(flat & ~const)[0]:
        uni = model.univariates[k]
        fam = type(getattr(uni, '_instance', None) or uni).__name__
        x = df[names[k]].to_numpy().astype(float)
        resolved = np.ptp(x) > 1e4 * np.finfo(float).eps * np.max(np.abs(x))
        require(not (resolved and fam in ('GaussianUnivariate', 'UniformUnivariate', 'GaussianKDE')),
                'column %r is not constant (range %.6g around %.6g, %d distinct values) but its fitted %s marginal maps every training '
                'value to the same normal score: the column lost its unit diagonal and all its correlations'
                % (names[k], np.ptp(x), np.mean(x), len(np.unique(x)), fam), tag='nonconstant-as-constant')
    diag = np.diag(C)
    require(np.all(np.abs(diag[~flat] - 1) <= 2 * EPS32), 'diagonal of columns with non-constant scores: %r' % diag[~flat], tag='diagonal')
    require(np.all(np.abs(diag[flat]) <= 2 * EPS32), 'diagonal of constant columns: %r' % diag[flat], tag='diagonal-constant')
    if flat.any():
        off = C.copy()
        np.fill_diagonal(off, 0)
        require(np.all(off[flat, :] == 0) and np.all(off[:, flat] == 0), 'constant column correlated with another column', tag='constant-zero')
    with np.errstate(all='ignore'):
        mine = np.corrcoef(Z, rowvar=False)
    mine = np.nan_to_num(np.atleast_2d(mine), nan=0.0)
    mine[flat, :] = 0.0
    mine[:, flat] = 0.0
    cond = np.linalg.cond(mine)
    diff_plain = np.max(np.abs(C - mine))
    diff_ridge = np.max(np.abs(C - (mine + EPS32 * np.eye(d))))
    # the ridge decision (cond > 1/eps) is numerical noise for near-singular matrices: the condition number of the
    # library's matrix and of the recomputed one differ by orders of magnitude there, so the ridge is accepted from 1e12 on
    ok = diff_plain <= 1e-9 or (cond > 1e12 and diff_ridge <= 1e-9)
    require(ok, 'correlation differs from Pearson of normal scores by %.3g (with ridge %.3g, cond %.3g)' % (diff_plain, diff_ridge, cond),
            tag='recompute', detail={'cond': float(cond)})
    target(float(min(diff_plain, diff_ridge) / 1e-9), label='recompute err/tol')
    must_regularise = bool(flat.any())       # exact zero row/column: singular in every arithmetic
    if must_regularise:
        require(w.min() >= 0.4 * EPS32, 'singular correlation (cond %.3g) was not regularised: min eigenvalue %.3g' % (cond, w.min()),
                tag='not-regularised')
    # to_dict mirrors the matrix
    dct = value(model.to_dict, what='to_dict')
    require(np.array_equal(np.asarray(dct['correlation'], dtype=float), C), "to_dict()['correlation'] differs from model.correlation", tag='to_dict')
    require(list(dct['columns']) == names, "to_dict()['columns'] = %r" % (dct['columns'],), tag='to_dict')
    # sampling and density still work (singular matrices are regularised)
    smp = value(model.sample, 5, what='sample')
    require(list(smp.columns) == names and len(smp) == 5, 'sample(5) shape/columns wrong on this table', tag='sample')
    kde_cols = [type(u).__name__ == 'GaussianKDE' or type(getattr(u, '_instance', None)).__name__ == 'GaussianKDE' for u in model.univariates]
    vals = smp.to_numpy().astype(float)
    finite_ok = np.isfinite(vals) | (np.isinf(vals) & np.array(kde_cols)[None, :])
    require(np.all(finite_ok), 'sample(5) contains NaN / unexpected inf: %r' % vals[~finite_ok][:3], tag='sample-finite')
    pdf = np.asarray(value(model.probability_density, df.head(5), what='probability_density'), dtype=float)
    require(pdf.shape == (min(5, len(df)),) and np.all(np.isfinite(pdf)) and np.all(pdf >= 0), 'probability_density(head) = %r' % pdf, tag='pdf')
    # "... regularised so that sampling still works": conditioning on a pair of columns that carry the same information
    # (|corr| = 1 up to rounding - the 2x2 block to be inverted is singular without the ridge) must give the law of
    # conditioning on one of them.  Checked on a free column with a closed-form marginal, with values from a training row.
    cls_extra = []
    pair = None
    if d >= 3:
        # only pairs whose normal scores are the same numbers up to rounding (a duplicate, a negation or an affine copy
        # under a location-scale marginal): for a pair that is merely close (|corr| = 1 - 1e-12) a difference of 1e-7
        # between the two given scores is real information under the fitted model and the conditional law legitimately moves
        for a_ in range(d):
            for b_ in range(a_ + 1, d):
                if pair is None and not flat[a_] and not flat[b_] and \
                        min(np.max(np.abs(Z[:, a_] - Z[:, b_])), np.max(np.abs(Z[:, a_] + Z[:, b_]))) <= 1e-13:
                    pair = (a_, b_)
    if pair is not None:
        i, j = pair
        free = [k for k in range(d) if k not in pair and not flat[k]
                and type(getattr(model.univariates[k], '_instance', None) or model.univariates[k]).__name__ in ('GaussianUnivariate', 'UniformUnivariate')]
        r = int(np.argmin(np.abs(Z[:, i])))             # a central training row: no censoring of the scores
        if free and abs(Z[r, i]) < 2 and not flat[i] and not flat[j]:
            k = free[0]
            conds = {names[i]: float(df.iloc[r, i]), names[j]: float(df.iloc[r, j])}
            ns = 300
            out = value(model.sample, ns, conditions=conds, what='sample(conditions on two numerically identical columns)')
            zk = stats.norm.ppf(np.clip(np.asarray(model.univariates[k].cdf(out[names[k]].to_numpy()), dtype=float), EPS32, 1 - EPS32))
            rho = float(mine[k, i])
            want_mean, want_sd = rho * Z[r, i], float(np.sqrt(max(1 - rho * rho, 0.0)))
            band = 7.0 * want_sd / np.sqrt(ns) + 0.02
            require(np.all(np.isfinite(zk)) and abs(float(np.mean(zk)) - want_mean) <= band,
                    'sample(%d, conditions on %r and %r - normal scores correlated %.15f): the free column %r has mean normal score %.3f, '
                    'conditioning on either column alone gives %.3f (sd %.3f, band %.3f): the singular block was not regularised'
                    % (ns, names[i], names[j], mine[i, j], names[k], float(np.mean(zk)), want_mean, want_sd, band), tag='singular-conditioning')
            cls_extra.append('conditioned-on-singular-pair')
    degenerate = cond > 1e12 or flat.any()
    cls = ['d=%d' % d, 'config:' + case['config']['mode'], 'refitted-model' if case.get('prefit_seed') is not None else 'fresh-model']
    if cond > 1e15:
        cls.append('singular')
    if must_regularise:
        cls.append('regularisation-required')
    if const.any():
        cls.append('constant-column')
    if (flat & ~const).any():
        cls.append('degenerate-fitted-marginal')
    for op in case['derived']:
        cls.append('derived:' + op['op'])
    if case.get('offsets'):
        cls.append('offset-column')
    cls += cls_extra
    if as_array:
        cls.append('ndarray-table')
    return {'nontrivial': d >= 3 or bool(degenerate), 'classes': cls}


SUBS = [
    Sub('fast_marginals', strategy(False), oracle, quick=640, thorough=24000, use_target=True),
    Sub('all_marginals', strategy(True), oracle, quick=48, thorough=1600, shrink=False),
]
