"""C13 - Gaussian-copula density/CDF equal the normal-score MVN, in any representation."""

import numpy as np
from hypothesis import strategies as st
from scipy import integrate, stats

from vlib import models as M
from vlib import strategies as S
from vlib.harness import Sub, require, target, value

PROPERTY_ID = 'C13'
LEVEL = 'exploration'
RULE = ('fitted GaussianMultivariate (2..6 columns; generated Gaussian-copula table, n 40..600; marginal configuration '
        'class/FQN/instance/per-column dict over Gaussian, Uniform, KDE, TruncatedGaussian, Gamma; a separate class with a '
        'constant column) x (fresh model | model fitted on another table and queried before) x query batch of 1..40 rows (training rows, points in range, points 10x outside the range) x '
        'container (DataFrame with permuted columns, ndarray C/F order, one-row Series, 1-d array) x row permutation. '
        'Oracle: own eigh-based MVN log-density and scipy/own MVN CDF on independently computed normal scores; '
        'monotonicity; row independence; container equivalence. Non-trivial: (d>=3 or some |rho|>=0.3) and a '
        'permuted-column DataFrame or non-DataFrame container; distinct = distinct generated case.')
ASSUMPTIONS = [
    'for d >= 3 the MVN CDF integrator is scipy\'s (randomised, tolerance 2e-4); for d = 2 an own 1-d quadrature is used too',
    'normal scores are recomputed from the public univariates of the fitted model',
]
EPS32 = float(np.finfo(np.float32).eps)
# metamorphic comparisons of densities: a different batch shape changes the summation order inside the KDE CDF by
# ~1e-16, which Phi^-1 amplifies by 1/phi(z) (1e6 at the clipping point) and the density by |z|: 1e-6 relative.
RT = 1e-6


def strategy(constant):
    @st.composite
    def cases(draw):
        table = draw(S.table_spec(2, 6, 40, 600, constant=constant))
        if constant and not table['constant_cols']:
            table['constant_cols'] = [0]
        d = table['corr']['d']
        cfg = draw(M.gaussian_config(d, classes=M.FAST_CLASSES))
        q = {
            'rows': draw(st.integers(1, 40)), 'seed': draw(S.SEEDS),
            'container': draw(st.sampled_from(['df', 'df', 'ndarray', 'ndarray_f', 'series', 'array1d'])),
            'col_perm': draw(S.SEEDS), 'row_perm': draw(S.SEEDS),
            'bump_col': draw(st.integers(0, d - 1)), 'bump': draw(st.floats(0.0, 3.0)),
            'probe': draw(st.integers(0, 39)),
        }
        # history: the same model object may have been fitted on another table and queried before
        return {'table': table, 'config': cfg, 'query': q, 'prefit_seed': draw(st.one_of(st.none(), S.SEEDS))}

    return cases()


def queries(df, q):
    rs = np.random.RandomState(q['seed'])
    X = df.to_numpy().astype(float)
    n, d = X.shape
    lo, hi = X.min(axis=0), X.max(axis=0)
    rng = np.where(hi > lo, hi - lo, 1.0)
    rows = []
    for _ in range(q['rows']):
        r = rs.uniform()
        if r < 0.4:
            rows.append(X[rs.randint(n)])
        elif r < 0.8:
            rows.append(lo + rs.uniform(-0.2, 1.2, size=d) * rng)
        elif r < 0.93:
            rows.append(lo + rs.uniform(-10, 11, size=d) * rng)
        else:
            # alternating far-below / far-above: against the correlation direction, where the density underflows
            sign = np.where(np.arange(d) % 2 == rs.randint(2), -10.0, 11.0)
            rows.append(lo + sign * rng)
    return np.array(rows)


def mvn_logpdf(Z, C):
    w, V = np.linalg.eigh(C)
    d = C.shape[0]
    Y = Z @ V
    maha = np.sum(Y * Y / w, axis=1)
    return -0.5 * (d * np.log(2 * np.pi) + np.sum(np.log(w)) + maha)


def bvn_cdf(h, k, rho):
    """P(X<=h, Y<=k) for a standard bivariate normal, by 1-d quadrature (own reference)."""
    s = np.sqrt(1 - rho * rho)
    # finite range with break points where the integrand changes: around x = k / rho the factor Phi((k - rho x) / s)
    # switches between 0 and 1 (for |rho| near 1 within a width s / |rho|); an adaptive rule on (-inf, h] can step over
    # that narrow bump when it lies at |x| > 5 (it returned 3e-13 instead of 1.19e-7 for h = 5.17, k = -5.17, rho = 0.96)
    lo = -40.0
    if h <= lo:
        return 0.0
    pts = {0.0, float(np.clip(k, lo, h))}
    if abs(rho) > 1e-12:
        c = k / rho
        w = 8.0 * s / abs(rho)
        pts |= {float(np.clip(c, lo, h)), float(np.clip(c - w, lo, h)), float(np.clip(c + w, lo, h))}
    pts = sorted(p for p in pts if lo < p < h)
    val, _ = integrate.quad(lambda x: stats.norm.pdf(x) * stats.norm.cdf((k - rho * x) / s), lo, h,
                            epsabs=1e-14, epsrel=1e-12, limit=800, points=pts or None)
    return val


def scores(model, names, Q):
    Z = np.empty(Q.shape)
    for k, (name, uni) in enumerate(zip(names, model.univariates)):
        u = np.asarray(value(uni.cdf, Q[:, k].copy(), what='univariate.cdf'), dtype=float)
        Z[:, k] = stats.norm.ppf(np.clip(u, EPS32, 1 - EPS32))
    return Z


def as_container(Q, names, kind, col_perm_seed):
    import pandas as pd

    if kind == 'df':
        rs = np.random.RandomState(col_perm_seed)
        perm = rs.permutation(len(names))
        frame = pd.DataFrame({names[j]: Q[:, j] for j in perm}, columns=[names[j] for j in perm])
        style = col_perm_seed % 4            # row labels of the queried frame carry no information either
        if style == 1:
            frame.index = pd.Index(['q%d' % i for i in range(len(frame))], dtype=object)
        elif style == 2:
            frame.index = pd.Index(rs.permutation(len(frame)) + 50)
        elif style == 3:
            frame.index = pd.Index(np.zeros(len(frame), dtype=int))
        return frame, not np.array_equal(perm, np.arange(len(names)))
    if kind == 'ndarray':
        return np.ascontiguousarray(Q), True
    if kind == 'ndarray_f':
        return np.asfortranarray(Q), True
    if kind == 'series':
        perm = np.random.RandomState(col_perm_seed).permutation(len(names))
        return pd.Series([Q[0, j] for j in perm], index=pd.Index([names[j] for j in perm], dtype=object)), True
    return Q[0].copy(), True


def oracle(case):
    import pandas as pd

    df, _ = S.build_table(case['table'])
    names = list(df.columns)
    d = len(names)
    q = case['query']
    model = M.build_gaussian(case['config'], names)
    if case.get('prefit_seed') is not None:
        rs0 = np.random.RandomState(case['prefit_seed'])
        other = df.copy()
        for c in names:      # same schema, different marginals and (shuffled) dependence
            other[c] = rs0.permutation(other[c].to_numpy()) * rs0.uniform(0.5, 2.0) + rs0.normal()
        value(model.fit, other, what='fit (earlier table)')
        value(model.probability_density, other.head(3), what='probability_density (earlier fit)')
        value(model.cumulative_distribution, other.head(2), what='cumulative_distribution (earlier fit)')
    value(model.fit, df.copy(), what='fit')
    if q['col_perm'] % 2:
        # a second live model (same columns, shuffled dependence) is fitted and queried before the model under test
        byst = M.build_gaussian(case['config'], names)
        try:
            byst.fit(M.variant_table(df, q['col_perm']))
            byst.probability_density(df.head(3))
            byst.cumulative_distribution(df.head(2))
        except Exception:
            pass
    C = model.correlation.to_numpy().astype(float)
    Q = queries(df, q)
    single = q['container'] in ('series', 'array1d')
    if single:
        Q = Q[:1]
    nrows = len(Q)
    Z = scores(model, names, Q)
    base = pd.DataFrame(Q, columns=names)
    pdf0 = np.atleast_1d(np.asarray(value(model.probability_density, base.copy(), what='probability_density'), dtype=float))
    require(pdf0.shape == (nrows,), 'probability_density returned shape %s for %d rows' % (pdf0.shape, nrows), tag='shape')
    require(np.all(np.isfinite(pdf0)) and np.all(pdf0 >= 0), 'probability_density not finite / negative: %r' % pdf0[:5], tag='pdf-range')
    w = np.linalg.eigvalsh(C)
    well = w.min() > 1e-6
    cls = ['d=%d' % d, 'container:' + q['container'], 'well-conditioned' if well else 'ill-conditioned',
           'refitted-model' if case.get('prefit_seed') is not None else 'fresh-model']
    if well:
        lp = mvn_logpdf(Z, C)
        mine = np.exp(lp)
        err = np.abs(pdf0 - mine) / np.maximum(mine, 1e-300)
        ok = (err <= 1e-9) | (np.abs(pdf0 - mine) <= 1e-300)
        j = int(np.argmax(np.where(ok, 0, err)))
        require(ok.all(), 'probability_density=%r but MVN density of the normal scores is %r (row %r)' % (pdf0[j], mine[j], Q[j].tolist()), tag='pdf-reference')
        target(float(np.max(np.where(np.isfinite(err), err, 0)) / 1e-9), label='pdf err/tol')
        lpdf = np.atleast_1d(np.asarray(value(model.log_probability_density, base.copy(), what='log_probability_density'), dtype=float))
        pos = pdf0 > 1e-290
        require(np.all(np.abs(lpdf[pos] - lp[pos]) <= 1e-8 * (1 + np.abs(lp[pos]))), 'log_probability_density differs from log of the MVN density', tag='logpdf')
        zero = pdf0 == 0
        require(np.all(lpdf[zero] < -744), 'log_probability_density of a density that underflowed to 0 is %r (log of the smallest positive float is -744.4)' % lpdf[zero][:3], tag='logpdf')
        sub = ~pos & ~zero
        with np.errstate(divide='ignore'):
            require(np.all(np.abs(lpdf[sub] - np.log(pdf0[sub])) <= 0.5), 'log_probability_density %r is not the log of the (tiny) density %r' % (lpdf[sub][:3], pdf0[sub][:3]), tag='logpdf')
        if zero.any() or sub.any():
            cls.append('underflowing-density')
    # ---- cdf on at most 6 rows ----
    kq = min(nrows, 6)
    cdf0 = np.atleast_1d(np.asarray(value(model.cumulative_distribution, base.iloc[:kq].copy(), what='cumulative_distribution'), dtype=float))
    require(cdf0.shape == (kq,), 'cumulative_distribution returned shape %s for %d rows' % (cdf0.shape, kq), tag='shape')
    require(np.all((cdf0 >= -1e-9) & (cdf0 <= 1 + 1e-9)), 'cumulative_distribution outside [0,1]: %r' % cdf0, tag='cdf-range')
    if well:
        ref = np.atleast_1d(stats.multivariate_normal.cdf(Z[:kq], mean=np.zeros(d), cov=C))
        e = np.abs(cdf0 - ref)
        require(np.all(e <= 2e-4), 'cumulative_distribution=%r, MVN CDF at the normal scores=%r' % (cdf0[int(e.argmax())], ref[int(e.argmax())]), tag='cdf-reference')
        if d == 2:
            own = np.array([bvn_cdf(Z[i, 0], Z[i, 1], C[0, 1]) for i in range(min(kq, 3))])
            require(np.all(np.abs(cdf0[:len(own)] - own) <= 1e-7), 'd=2: cumulative_distribution=%r, own bivariate normal CDF=%r' % (cdf0[:len(own)], own), tag='cdf-own')
        # monotone in a coordinate
        Qb = Q[:kq].copy()
        col = q['bump_col'] % d
        spread = np.ptp(df.to_numpy()[:, col]) or 1.0
        Qb[:, col] += q['bump'] * spread
        cdfb = np.atleast_1d(np.asarray(value(model.cumulative_distribution, pd.DataFrame(Qb, columns=names), what='cumulative_distribution'), dtype=float))
        require(np.all(cdfb >= cdf0 - 2e-4), 'raising column %r lowers cumulative_distribution: %r -> %r' % (names[col], cdf0, cdfb), tag='cdf-monotone')
    # ---- the same points in single precision: the result depends on the points, not on the dtype they arrive in ----
    Q32 = Q.astype(np.float32)
    if np.all(np.isfinite(Q32)):
        ref64 = np.atleast_1d(np.asarray(value(model.probability_density, pd.DataFrame(Q32.astype(float), columns=names), what='probability_density'), dtype=float))
        for label, arg in (('float32 DataFrame', pd.DataFrame(Q32, columns=names)), ('float32 array', Q32.copy())):
            got32 = np.atleast_1d(np.asarray(value(model.probability_density, arg, what='probability_density(%s)' % label), dtype=float))
            require(got32.shape == ref64.shape and np.all(np.abs(got32 - ref64) <= 1e-9 * np.abs(ref64) + 1e-300),
                    'probability_density of a %s differs from the density of exactly the same points given as float64: %r vs %r'
                    % (label, got32[:3], ref64[:3]), tag='dtype-pdf')
    # ---- container equivalence ----
    cont, permuted = as_container(Q, names, q['container'], q['col_perm'])
    pdf1 = np.atleast_1d(np.asarray(value(model.probability_density, cont, what='probability_density(%s)' % q['container']), dtype=float))
    require(pdf1.shape == (nrows,), 'probability_density(%s) returned shape %s for %d rows' % (q['container'], pdf1.shape, nrows), tag='shape')
    require(np.all(np.abs(pdf1 - pdf0) <= RT * np.abs(pdf0) + 1e-300), 'probability_density differs between DataFrame in training order and %s: %r vs %r'
            % (q['container'], pdf0[:3], pdf1[:3]), tag='container-pdf')
    if single or nrows <= 6:
        cont2, _ = as_container(Q[:kq], names, q['container'], q['col_perm'])
        cdf1 = np.atleast_1d(np.asarray(value(model.cumulative_distribution, cont2, what='cumulative_distribution(%s)' % q['container']), dtype=float))
        require(np.all(np.abs(cdf1 - cdf0) <= 2e-4), 'cumulative_distribution differs between DataFrame and %s: %r vs %r' % (q['container'], cdf0, cdf1), tag='container-cdf')
    # ---- row independence ----
    k = q['probe'] % nrows
    alone = np.atleast_1d(np.asarray(value(model.probability_density, base.iloc[[k]].copy(), what='probability_density'), dtype=float))
    require(abs(alone[0] - pdf0[k]) <= RT * abs(pdf0[k]) + 1e-300, 'probability_density of row %d alone %r, in batch %r' % (k, alone[0], pdf0[k]), tag='row-independence')
    perm = np.random.RandomState(q['row_perm']).permutation(nrows)
    pp = np.atleast_1d(np.asarray(value(model.probability_density, base.iloc[perm].reset_index(drop=True), what='probability_density'), dtype=float))
    require(np.all(np.abs(pp - pdf0[perm]) <= RT * np.abs(pdf0[perm]) + 1e-300), 'probability_density changes when rows are permuted', tag='row-independence')
    if k < kq:
        ca = np.atleast_1d(np.asarray(value(model.cumulative_distribution, base.iloc[[k]].copy(), what='cumulative_distribution'), dtype=float))
        require(abs(ca[0] - cdf0[k]) <= 2e-4, 'cumulative_distribution of row %d alone %r, in batch %r' % (k, ca[0], cdf0[k]), tag='row-independence')
    offdiag = np.abs(C - np.diag(np.diag(C)))
    nontrivial = (d >= 3 or offdiag.max() >= 0.3) and permuted
    if case['table'].get('constant_cols'):
        cls.append('constant-column')
    return {'nontrivial': bool(nontrivial), 'classes': cls}


SUBS = [
    Sub('mvn_equivalence', strategy(False), oracle, quick=400, thorough=12000, use_target=True),
    Sub('constant_column', strategy(True), oracle, quick=80, thorough=2400),
]
