"""C05 - marginal model choice: best-KS candidate, filters, per-column config, fallback."""

import numpy as np
from hypothesis import strategies as st
from scipy import stats

from checks import c03, c04
from vlib import models as M
from vlib import strategies as S
from vlib.harness import Sub, call, require, value

PROPERTY_ID = 'C05'
LEVEL = 'exploration'
RULE = ('(a) dataset recipe (8 shapes, n 5..600, loc/scale over 5 decades, constant excluded) x Univariate configuration: '
        'default, parametric/bounded filter combination, explicit candidate list of 1..4 entries given as classes, FQN '
        'strings or configured instances; oracle = own loop (fresh instance, fit, scipy kstest) giving the KS distance of '
        'every candidate: the selected family must be fittable with KS <= min + 1e-12, and .candidates must equal the tag '
        'filter / explicit list. (a2) the same on samples of 4000..9000 rows that no candidate fits well (zero-inflated, few-valued, far bimodal), where every KS p-value underflows to 0. (b) GaussianMultivariate with a generated per-column configuration (class, FQN, instance '
        'with options, Univariate prototype, dict with missing keys, a distribution whose fit raises): every column is '
        'modelled by what was configured, options are carried, unnamed columns use the default, failing columns fall back '
        'to a Gaussian (loc/scale = mean/std) and fit succeeds. Non-trivial: >= 2 fittable candidates with distinct KS, or '
        'a fallback column; distinct = distinct generated case.')
ASSUMPTIONS = [
    'KS distances are recomputed with the same public pieces (get_instance, fit, scipy.stats.kstest) in an independent loop',
    'ties between candidates may be resolved either way',
]

ALL = M.UNI_CLASSES


def cand_entry():
    cls = st.sampled_from(ALL)
    return st.one_of(
        st.fixed_dictionaries({'form': st.just('class'), 'name': cls}),
        st.fixed_dictionaries({'form': st.just('fqn'), 'name': cls}),
        st.fixed_dictionaries({'form': st.just('instance'), 'name': cls, 'opts': st.just({})}),
        st.fixed_dictionaries({'form': st.just('instance'), 'name': st.just('GaussianKDE'),
                               'opts': st.fixed_dictionaries({'bw_method': st.sampled_from([0.1, 0.5, 'silverman'])})}),
        st.just({'form': 'boom', 'name': 'Boom'}),        # a candidate whose fit always raises
    )


def uni_config():
    return st.one_of(
        st.just({'mode': 'default'}),
        st.fixed_dictionaries({'mode': st.just('filters'), 'parametric': st.sampled_from([None, 'PARAMETRIC', 'NON_PARAMETRIC']),
                               'bounded': st.sampled_from([None, 'BOUNDED', 'UNBOUNDED', 'SEMI_BOUNDED'])}),
        st.fixed_dictionaries({'mode': st.just('candidates'), 'cands': st.lists(cand_entry(), min_size=1, max_size=4)}),
        st.fixed_dictionaries({'mode': st.just('candidates'), 'cands': st.lists(cand_entry(), min_size=2, max_size=4)}),
        # the same class listed several times with different constructor arguments: every entry is a candidate of its own
        st.fixed_dictionaries({'mode': st.just('candidates'), 'cands': st.lists(
            st.fixed_dictionaries({'form': st.just('instance'), 'name': st.just('GaussianKDE'),
                                   'opts': st.fixed_dictionaries({'bw_method': st.sampled_from([3.0, 1.0, 0.3, 0.05, 'silverman'])})}),
            min_size=2, max_size=3, unique_by=lambda e: str(e['opts']['bw_method']))}),
    )


def build_univariate(cfg):
    import copulas.univariate as cu

    if cfg['mode'] == 'default':
        return cu.Univariate()
    if cfg['mode'] == 'filters':
        kw = {}
        if cfg['parametric']:
            kw['parametric'] = cu.ParametricType[cfg['parametric']]
        if cfg['bounded']:
            kw['bounded'] = cu.BoundedType[cfg['bounded']]
        return cu.Univariate(**kw)
    from vlib import support

    return cu.Univariate(candidates=[support.Boom if c['form'] == 'boom' else M.build_dist(c) for c in cfg['cands']])


def expected_candidates(cfg):
    """Set of class names the candidate list must consist of."""
    import copulas.univariate as cu

    if cfg['mode'] == 'candidates':
        return [c['name'] for c in cfg['cands']]
    out = []
    for name in ALL:
        cls = M.uni_class(name)
        if cfg['mode'] == 'filters':
            if cfg['parametric'] and cls.PARAMETRIC != cu.ParametricType[cfg['parametric']]:
                continue
            if cfg['bounded'] and cls.BOUNDED != cu.BoundedType[cfg['bounded']]:
                continue
        out.append(name)
    return out


def cand_name(c):
    if isinstance(c, str):
        return c.rsplit('.', 1)[1]
    if isinstance(c, type):
        return c.__name__
    return type(c).__name__


def oracle_selection(case):
    from copulas.utils import get_instance

    x = np.array(case['_x'], dtype=float) if case.get('_x') is not None else c03.make_data(case['data'])
    if case.get('outlier_exp') is not None:
        # a few astronomically large values: several families then "fit" but their CDF is nan - such a candidate has no
        # KS distance and cannot be the one with the minimal distance
        x = np.concatenate((x, [10.0 ** case['outlier_exp'], 10.0 ** (case['outlier_exp'] - 1)]))
    if len(np.unique(x)) < (3 if case.get('_x') is not None else 5):
        return {'nontrivial': False, 'classes': ['too-few-distinct']}
    cfg = case['config']
    u = build_univariate(cfg)
    want = expected_candidates(cfg)
    got = [cand_name(c) for c in u.candidates]
    if cfg['mode'] == 'candidates':
        require(got == want, 'Univariate(candidates=...) keeps %r, given %r' % (got, want), tag='candidate-list')
    else:
        require(sorted(got) == sorted(want), 'Univariate(%r).candidates = %r, families matching the filters: %r'
                % ({k: v for k, v in cfg.items() if k != 'mode'}, sorted(got), sorted(want)), tag='candidate-filter')
    # own KS table over the configured candidates
    table = []
    for c in u.candidates:
        try:
            inst = get_instance(c)
            inst.fit(x.copy())
            ks = float(stats.kstest(x, inst.cdf)[0])
            if np.isnan(ks):
                table.append((cand_name(c), None))
            else:
                table.append((cand_name(c), ks))
        except Exception:
            table.append((cand_name(c), None))
    fittable = [(n, k) for n, k in table if k is not None]
    cand_before = list(u.candidates)
    kind, err = call(u.fit, x.copy(), allow=(Exception,), what='Univariate.fit')
    require(len(u.candidates) == len(cand_before) and all(a is b for a, b in zip(u.candidates, cand_before)),
            'Univariate.fit changed the candidate list: %r -> %r' % ([cand_name(c) for c in cand_before], [cand_name(c) for c in u.candidates]), tag='candidates-mutated')
    if not fittable:
        return {'nontrivial': False, 'classes': ['no-fittable-candidate', 'fit:' + kind]}
    require(kind == 'ok', 'Univariate.fit raised %s: %s although %r can be fitted' % (type(err).__name__, err, [n for n, _ in fittable]), tag='fit-raised')
    sel = value(u.to_dict, what='to_dict')['type'].rsplit('.', 1)[1]
    best = min(k for _, k in fittable)
    mine = [k for n, k in fittable if n == sel]
    require(mine, 'Univariate selected %s, which is not a fittable candidate (%r)' % (sel, table), tag='selected-unfittable')
    require(min(mine) <= best + 1e-12, 'Univariate selected %s (KS %.6f) but %s has KS %.6f; table %r'
            % (sel, min(mine), min(fittable, key=lambda t: t[1])[0], best, table), tag='not-best-ks')
    # the same statement on the fitted wrapper itself (two candidates may share their class and differ in their options)
    ks_sel = float(stats.kstest(x, u.cdf)[0])
    require(ks_sel <= best + 1e-9, 'the model selected by Univariate (%s) has KS %.6f but candidate %s reaches %.6f; table %r'
            % (sel, ks_sel, min(fittable, key=lambda t: t[1])[0], best, table), tag='not-best-ks')
    # the fitted wrapper behaves as the selected family fitted on the data
    fresh = M.uni_class(sel)
    idx = [i for i, c in enumerate(u.candidates) if cand_name(c) == sel]
    grid = np.quantile(x, [0.1, 0.5, 0.9])
    ok_any = False
    for i in idx:
        inst = get_instance(u.candidates[i])
        try:
            inst.fit(x.copy())
        except Exception:
            continue
        if np.allclose(np.asarray(inst.cdf(grid), dtype=float), np.asarray(u.cdf(grid), dtype=float), rtol=1e-9, atol=1e-12):
            ok_any = True
    require(ok_any, 'the fitted wrapper does not behave like %s fitted on the data' % sel, tag='wrapper-behaviour')
    distinct = len({round(k, 12) for _, k in fittable}) >= 2
    return {'nontrivial': len(fittable) >= 2 and distinct, 'classes': ['mode:' + cfg['mode'], 'selected:' + sel,
                                                                        'fittable=%d' % len(fittable)]
            + (['nan-ks-candidate'] if any(k is None for _, k in table) else []) + (['huge-outliers'] if case.get('outlier_exp') is not None else [])}


def large_strategy():
    return st.fixed_dictionaries({
        'shape': st.sampled_from(['zero-inflated', 'few-valued', 'bimodal-far', 'half-constant']), 'n': st.integers(4000, 9000), 'seed': S.SEEDS,
        'cands': st.permutations(['GammaUnivariate', 'GaussianUnivariate', 'GaussianKDE', 'UniformUnivariate', 'StudentTUnivariate']).map(lambda l: list(l)[:4]),
    })


def oracle_large(case):
    """Large samples that no candidate fits well: every KS p-value underflows, only the statistic can rank."""
    rs = np.random.RandomState(case['seed'])
    n = case['n']
    sh = case['shape']
    if sh == 'zero-inflated':
        x = np.where(rs.uniform(size=n) < 0.85, 0.0, rs.gamma(2.0, 3.0, size=n))
    elif sh == 'few-valued':
        x = rs.choice([0.0, 1.0, 2.0, 10.0], size=n, p=[0.5, 0.3, 0.15, 0.05])
    elif sh == 'bimodal-far':
        x = np.where(rs.uniform(size=n) < 0.5, rs.normal(size=n) * 0.01, 100 + rs.normal(size=n) * 0.01)
    else:
        x = np.where(rs.uniform(size=n) < 0.5, 3.0, rs.uniform(0, 1, size=n))
    cfg = {'mode': 'candidates', 'cands': [{'form': 'class', 'name': c} for c in case['cands']]}
    return oracle_selection({'data': None, 'config': cfg, '_x': x.tolist(), 'label': sh})


# ---- (b) per-column configuration --------------------------------------------------------------------

def column_atom():
    boom = st.sampled_from([
        {'form': 'boom', 'how': 'class'}, {'form': 'boom', 'how': 'fqn'}, {'form': 'boom', 'how': 'instance'},
    ])
    trunc = st.fixed_dictionaries({'form': st.just('instance'), 'name': st.just('TruncatedGaussian'),
                                   'opts': st.fixed_dictionaries({'lo_frac': st.floats(0.05, 2.0), 'hi_frac': st.floats(0.05, 2.0)})})
    return st.one_of(M.dist_atom(M.FAST_CLASSES + ['StudentTUnivariate'], allow_default=False, allow_wrapper=True), boom, trunc)


def column_strategy():
    @st.composite
    def cases(draw):
        table = draw(S.table_spec(2, 5, 40, 300, constant=False))
        d = table['corr']['d']
        mode = draw(st.sampled_from(['dict', 'dict', 'single']))
        if mode == 'single':
            cfg = {'mode': 'single', 'dist': draw(column_atom())}
        else:
            cfg = {'mode': 'dict', 'cols': draw(st.dictionaries(st.integers(0, d - 1).map(str), column_atom(), min_size=0, max_size=d))}
        return {'table': table, 'config': cfg}

    return cases()


def build_atom(atom, col):
    from vlib import support

    if atom['form'] == 'boom':
        return {'class': support.Boom, 'fqn': 'vlib.support.Boom', 'instance': support.Boom()}[atom['how']]
    if atom.get('name') == 'TruncatedGaussian' and 'lo_frac' in (atom.get('opts') or {}):
        rng = float(np.ptp(col)) or 1.0
        return M.uni_class('TruncatedGaussian')(minimum=float(np.min(col) - atom['opts']['lo_frac'] * rng),
                                                maximum=float(np.max(col) + atom['opts']['hi_frac'] * rng))
    return M.build_dist(atom)


def oracle_columns(case):
    from copulas.multivariate import GaussianMultivariate

    df, _ = S.build_table(case['table'])
    names = list(df.columns)
    d = len(names)
    cfg = case['config']
    if cfg['mode'] == 'single':
        atoms = [cfg['dist']] * d
        dist = build_atom(cfg['dist'], df.iloc[:, 0].to_numpy())
        if cfg['dist'].get('name') == 'TruncatedGaussian' and 'lo_frac' in (cfg['dist'].get('opts') or {}):
            # one prototype for all columns: bounds must enclose every column
            allv = df.to_numpy()
            rng = float(np.ptp(allv)) or 1.0
            dist = M.uni_class('TruncatedGaussian')(minimum=float(allv.min() - cfg['dist']['opts']['lo_frac'] * rng),
                                                    maximum=float(allv.max() + cfg['dist']['opts']['hi_frac'] * rng))
    else:
        atoms = [cfg['cols'].get(str(j), {'form': 'default'}) for j in range(d)]
        dist = {names[int(k)]: build_atom(v, df.iloc[:, int(k)].to_numpy()) for k, v in cfg['cols'].items()}
    model = GaussianMultivariate(distribution=dist)
    given = dict(dist) if isinstance(dist, dict) else None
    value(model.fit, df.copy(), what='GaussianMultivariate.fit')
    if given is not None:
        # the configuration is the caller's object: a fallback is a property of one fit, not a new configuration
        require(list(dist) == list(given) and all(dist[k] is given[k] for k in given),
                'GaussianMultivariate.fit changed the distribution dict it was given: %r -> %r' % (given, dist), tag='config-mutated')
    cls = ['config:' + cfg['mode']]
    if cfg['mode'] == 'dict':
        # the same configuration after a fit in which a column had to fall back: the column is again modelled by the
        # configured distribution as soon as that can be fitted (same model object, and a new model given the same dict)
        from vlib import support

        conf = dict(dist)
        conf[names[0]] = support.BoomOnNegative
        m2 = GaussianMultivariate(distribution=conf)
        x0 = df.iloc[:, 0].to_numpy().astype(float)
        neg, pos = df.copy(), df.copy()
        neg[names[0]] = x0 - x0.max() - 1.0
        pos[names[0]] = x0 - x0.min() + 1.0
        value(m2.fit, neg, what='GaussianMultivariate.fit (column 0 not fittable)')
        t_neg = value(m2.univariates[0].to_dict, what='to_dict')['type'].rsplit('.', 1)[1]
        require(t_neg == 'GaussianUnivariate', 'column %r cannot be fitted by its configured distribution but is modelled by %s' % (names[0], t_neg), tag='fallback-type')
        for label, mm in (('the same model', m2), ('a new model given the same dict', GaussianMultivariate(distribution=conf))):
            value(mm.fit, pos.copy(), what='GaussianMultivariate.fit (after a fallback)')
            t_pos = value(mm.univariates[0].to_dict, what='to_dict')['type'].rsplit('.', 1)[1]
            require(t_pos == 'UniformUnivariate', 'after a fit in which column %r fell back to a Gaussian, %s fitted on data the configured distribution accepts '
                    'models the column by %s' % (names[0], label, t_pos), tag='fallback-sticks')
        cls.append('refit-after-fallback')
    fallback = False
    for j, (atom, uni) in enumerate(zip(atoms, model.univariates)):
        x = df.iloc[:, j].to_numpy()
        t = value(uni.to_dict, what='univariate.to_dict')['type'].rsplit('.', 1)[1]
        if atom['form'] == 'boom':
            fallback = True
            require(t == 'GaussianUnivariate', 'column %r: the configured distribution raises in fit; modelled by %s instead of a Gaussian' % (names[j], t),
                    tag='fallback-type')
            p = uni.to_dict()
            require(abs(p['loc'] - np.mean(x)) <= 1e-9 * max(1, abs(np.mean(x))) and abs(p['scale'] - np.std(x)) <= 1e-9 * max(np.std(x), 1e-300),
                    'column %r: fallback Gaussian has loc/scale %r/%r, data mean/std %r/%r' % (names[j], p['loc'], p['scale'], np.mean(x), np.std(x)),
                    tag='fallback-params')
            cls.append('fallback-column')
            continue
        allowed = M.expected_types(atom)
        if t not in allowed:
            # a configured family that cannot be fitted to this column may fall back to a Gaussian
            inst = build_atom(atom, x) if atom['form'] != 'default' else None
            failed = False
            if inst is not None:
                from copulas.utils import get_instance

                try:
                    get_instance(inst).fit(x.copy())
                except Exception:
                    failed = True
            require(failed and t == 'GaussianUnivariate', 'column %r configured as %r is modelled by %s' % (names[j], atom, t), tag='column-type')
            fallback = True
            cls.append('fallback-real-failure')
            continue
        cls.append('form:' + atom['form'])
        opts = atom.get('opts') or {}
        if atom.get('name') == 'GaussianKDE' and 'bw_method' in opts:
            w = np.full(len(x), 1.0 / len(x))
            h = c04.bandwidth(x, w, opts['bw_method'])
            pts = np.quantile(x, [0.2, 0.5, 0.8])
            mine = c04.kernel_sum(pts, x, w, h)
            got = np.asarray(value(uni.pdf, pts, what='pdf'), dtype=float)
            require(np.allclose(got, mine, rtol=1e-8), 'column %r: KDE prototype with bw_method=%r not honoured (pdf %r vs %r)' % (names[j], opts['bw_method'], got, mine),
                    tag='prototype-options')
            cls.append('kde-options')
        if atom.get('name') == 'TruncatedGaussian' and 'lo_frac' in opts:
            p = uni.to_dict()
            lo, hi = p['loc'] + p['a'] * p['scale'], p['loc'] + p['b'] * p['scale']
            proto = dist if cfg['mode'] == 'single' else dist[names[j]]
            require(abs(lo - proto.min) <= 1e-9 * max(1, abs(proto.min), abs(hi - lo)) and abs(hi - proto.max) <= 1e-9 * max(1, abs(proto.max), abs(hi - lo)),
                    'column %r: TruncatedGaussian prototype bounds [%r,%r] not honoured: fitted support [%r,%r]' % (names[j], proto.min, proto.max, lo, hi),
                    tag='prototype-options')
            cls.append('truncation-options')
    return {'nontrivial': fallback or cfg['mode'] == 'dict', 'classes': cls}


SUBS = [
    Sub('selection_optimality', st.one_of(
        st.fixed_dictionaries({'data': c03.data_strategy(600), 'config': uni_config(), 'outlier_exp': st.none()}),
        st.fixed_dictionaries({'data': c03.data_strategy(600), 'config': uni_config(), 'outlier_exp': st.none()}),
        st.fixed_dictionaries({'data': c03.data_strategy(600), 'config': uni_config(), 'outlier_exp': st.floats(100.0, 300.0)}),
        # a candidate that fits but has a nan CDF on such data (TruncatedGaussian) heads the list
        st.fixed_dictionaries({'data': c03.data_strategy(600), 'outlier_exp': st.floats(100.0, 300.0), 'config': st.fixed_dictionaries({
            'mode': st.just('candidates'),
            'cands': st.lists(cand_entry(), min_size=1, max_size=3).map(lambda rest: [{'form': 'class', 'name': 'TruncatedGaussian'}] + rest)})})), oracle_selection,
        quick=96, thorough=1920, shrink=False),
    Sub('selection_large_poor_fit', large_strategy(), oracle_large, quick=32, thorough=960, shrink=False),
    Sub('per_column_configuration', column_strategy(), oracle_columns, quick=160, thorough=9600),
]
