"""C01 - Gaussian-copula synthetic data keeps schema, marginals and dependence."""

import numpy as np
from hypothesis import strategies as st
from scipy import stats

from vlib import models as M
from vlib import stats as vs
from vlib import strategies as S
from vlib.harness import Sub, require, target, value

PROPERTY_ID = 'C01'
LEVEL = 'exploration'
RULE = ('Gaussian-copula training table (2..6 columns, 9 marginal kinds, factor/equi/AR(1)/block correlation, n_train '
        '300..2000, optional constant column, str/int/mixed labels) x marginal configuration (default selection, class, '
        'FQN, instance with options, Univariate with candidates/filters, per-column dict) x sampler seed x n in '
        '{1, 2, 17, n_big} (n_big drawn from 2500..9000 quick / 12000..30000 thorough: sample sizes on both sides of any internal batch size). Oracle: exact schema (rows, column order, no NaN, constant '
        'column reproduced), DKW band of every sampled column against its fitted marginal CDF, Hoeffding band of pairwise '
        'Kendall tau against (2/pi) asin(rho_hat); recovery sub-property: closed-form marginals and correlation recovered '
        'within sampling error, scipy-MLE families by the exact-binomial 80% rule. Non-trivial: >= 2 non-constant columns, '
        'some |rho_hat| >= 0.3; distinct = distinct generated case.')
ASSUMPTIONS = [
    'distributional clauses are decided up to DKW / Hoeffding bands at alpha 1e-13 per assertion',
    'a sampled value of +-inf from a KDE marginal (probability EPS per tail) is an ordinary value',
]
EPS32 = float(np.finfo(np.float32).eps)

MATCH = {'normal': 'GaussianUnivariate', 'uniform': 'UniformUnivariate', 'beta': 'BetaUnivariate', 'gamma': 'GammaUnivariate',
         'student_t': 'StudentTUnivariate', 'loglaplace': 'LogLaplace', 'truncnorm': 'TruncatedGaussian'}


def strategy(n_big):
    @st.composite
    def cases(draw):
        table = draw(S.table_spec(2, 6, 300, 2000))
        d = table['corr']['d']
        heavy = draw(st.integers(0, 9)) == 0
        if heavy:
            atom = M.dist_atom(M.UNI_CLASSES, allow_default=True, allow_wrapper=True)
            table['n'] = min(table['n'], 500)
            d = min(d, 3)
            table['corr']['d'] = d
            table['marginals'] = table['marginals'][:d]
            table['constant_cols'] = [c for c in table['constant_cols'] if c < d]
            cfg = draw(st.one_of(
                st.fixed_dictionaries({'mode': st.just('single'), 'dist': atom}),
                st.fixed_dictionaries({'mode': st.just('dict'), 'cols': st.dictionaries(st.integers(0, d - 1).map(str), atom, max_size=d)})))
        else:
            cfg = draw(M.gaussian_config(d, classes=M.FAST_CLASSES))
        return {'table': table, 'config': cfg, 'seed': draw(S.SEEDS), 'seed_kind': draw(st.sampled_from(['int', 'RandomState'])),
                'n_small': draw(st.sampled_from([1, 2, 17])), 'n_big': draw(st.integers(n_big[0], n_big[1]))}

    return cases()


def check_schema(out, n, names, df, const_cols, what):
    import pandas as pd

    require(isinstance(out, pd.DataFrame), '%s returned %s' % (what, type(out).__name__), tag='type')
    require(len(out) == n, '%s returned %d rows' % (what, len(out)), tag='rows')
    require(list(out.columns) == names, '%s columns %r, training columns %r' % (what, list(out.columns), names), tag='columns')
    X = out.to_numpy().astype(float)
    require(not np.isnan(X).any(), '%s contains missing values' % what, tag='nan')
    for j in const_cols:
        c = float(df.iloc[0, j])
        require(np.all(X[:, j] == c), '%s: constant training column %r (value %r) sampled as %r' % (what, names[j], c, X[:3, j]), tag='constant')
        if df.iloc[:, j].dtype.kind in 'iu':
            # "reproduced exactly": an integer constant (an id, a nanosecond timestamp) beyond 2**53 does not survive float64
            want = int(df.iloc[0, j])
            got = [int(v) if float(v) == int(float(v)) else v for v in out.iloc[:, j].tolist()]
            require(all(g == want for g in got), '%s: constant integer training column %r (value %d) sampled as %r' % (what, names[j], want, got[:3]),
                    tag='constant')
    return X


def oracle(case):
    df, _ = S.build_table(case['table'])
    names = list(df.columns)
    d = len(names)
    seed = case['seed'] if case['seed_kind'] == 'int' else np.random.RandomState(case['seed'])
    model = M.build_gaussian(case['config'], names, random_state=seed)
    value(model.fit, df.copy(), what='fit')
    const_cols = [j for j in range(d) if df.iloc[:, j].nunique() == 1]
    if const_cols and case['seed'] % 2 == 0:
        # the constant column as 64-bit integers too large for float64 (before the fit)
        df[names[const_cols[0]]] = np.full(len(df), 1700000000123456789 + case['seed'] % 1000, dtype='int64')
        model = M.build_gaussian(case['config'], names, random_state=seed)
        value(model.fit, df.copy(), what='fit')
    ns = case['n_small']
    check_schema(value(model.sample, ns, what='sample(%d)' % ns), ns, names, df, const_cols, 'sample(%d)' % ns)
    n = case['n_big']
    X = check_schema(value(model.sample, n, what='sample(%d)' % n), n, names, df, const_cols, 'sample(%d)' % n)
    eps = vs.dkw_eps(n)
    worst = 0.0
    live = [j for j in range(d) if j not in const_cols]
    cls = ['d=%d' % d, 'config:' + case['config']['mode'], 'n_small=%d' % ns]
    usable = []
    for j in live:
        uni = model.univariates[j]
        u_train = np.asarray(value(uni.cdf, df.iloc[:, j].to_numpy(), what='univariate.cdf'), dtype=float)
        if not np.all(np.isfinite(u_train)) or np.ptp(u_train) == 0:
            cls.append('degenerate-fitted-marginal')
            continue
        usable.append(j)
        # compared at the floating-point resolution of x = loc + scale*z (degenerate MLE fits put visible mass there)
        dist = vs.ks_excess_at_resolution(X[:, j], lambda x, _u=uni: np.asarray(_u.cdf(np.asarray(x, dtype=float)), dtype=float), vs.resolution_of(uni))
        worst = max(worst, dist / eps)
        require(dist <= eps + 2 * EPS32, 'column %r of sample(%d) does not follow its fitted marginal %s: KS %.4f > band %.4f'
                % (names[j], n, type(getattr(uni, '_instance', None) or uni).__name__, dist, eps), tag='marginal')
    # rank dependence vs fitted correlation
    C = model.correlation.to_numpy().astype(float)
    m = min(n, 10000)
    tb = vs.tau_band(m)
    max_rho = 0.0
    for a in range(len(usable)):
        for b in range(a + 1, len(usable)):
            i, j = usable[a], usable[b]
            rho = float(np.clip(C[i, j], -1, 1))
            max_rho = max(max_rho, abs(rho))
            fin = np.isfinite(X[:m, i]) & np.isfinite(X[:m, j])
            t = vs.tau_a(X[:m, i][fin], X[:m, j][fin])
            want = 2 / np.pi * np.arcsin(rho)
            worst = max(worst, abs(t - want) / tb)
            require(abs(t - want) <= tb + 1e-3, 'Kendall tau of sampled columns %r,%r is %.3f; fitted correlation %.3f implies %.3f (band %.3f)'
                    % (names[i], names[j], t, rho, want, tb), tag='dependence')
    target(worst, label='statistic/band')
    if const_cols:
        cls.append('constant-column')
    return {'nontrivial': len(usable) >= 2 and max_rho >= 0.3, 'classes': cls}


def recovery_strategy():
    @st.composite
    def cases(draw):
        table = draw(S.table_spec(2, 5, 400, 3000, kinds=['normal', 'uniform'], constant=False))
        table['corr']['kind'] = draw(st.sampled_from(['factor', 'equi', 'ar1']))
        table['corr']['lam'] = max(table['corr']['lam'], 0.5)
        return {'table': table, 'form': draw(st.sampled_from(['class', 'fqn', 'instance', 'instance-shared']))}

    return cases()


def oracle_recovery(case):
    df, Strue = S.build_table(case['table'])
    names = list(df.columns)
    d = len(names)
    n = len(df)
    cfg = {'mode': 'dict', 'cols': {str(j): {'form': case['form'], 'name': MATCH[m['kind']], 'opts': {}}
                                     for j, m in enumerate(case['table']['marginals'])}}
    if case['form'] == 'instance-shared':
        # one prototype object per family, given for every column of that family: a prototype is only a template
        from copulas.multivariate import GaussianMultivariate

        protos = {}
        dist = {names[j]: protos.setdefault(m['kind'], M.uni_class(MATCH[m['kind']])()) for j, m in enumerate(case['table']['marginals'])}
        model = GaussianMultivariate(distribution=dist)
    else:
        model = M.build_gaussian(cfg, names)
    value(model.fit, df.copy(), what='fit')
    # marginals: closed-form estimators, every dataset
    for j, spec in enumerate(case['table']['marginals']):
        x = df.iloc[:, j].to_numpy()
        grid = np.quantile(x, np.linspace(0.0025, 0.9975, 200))
        Ffit = np.asarray(value(model.univariates[j].cdf, grid, what='univariate.cdf'), dtype=float)
        Ftrue = S.marginal_cdf(spec, grid)
        gap = np.max(np.abs(Ffit - Ftrue))
        require(gap <= 4.0 / np.sqrt(n), 'column %r (%s, n=%d): fitted marginal CDF is %.4f from the generating CDF (allowed %.4f)'
                % (names[j], spec['kind'], n, gap, 4.0 / np.sqrt(n)), tag='marginal-recovery')
    C = model.correlation.to_numpy().astype(float)
    band = 8.0 / np.sqrt(n - 3)
    for i in range(d):
        for j in range(i + 1, d):
            zf, zt = np.arctanh(np.clip(C[i, j], -0.999999, 0.999999)), np.arctanh(np.clip(Strue[i, j], -0.999999, 0.999999))
            require(abs(zf - zt) <= band, 'correlation(%r,%r): fitted %.3f, generating %.3f (n=%d, Fisher-z band %.3f)'
                    % (names[i], names[j], C[i, j], Strue[i, j], n, band), tag='correlation-recovery')
    return {'nontrivial': d >= 2, 'classes': ['d=%d' % d, 'form:' + case['form']]}


def mle_cells(tier, seed):
    K = 30 if tier == 'quick' else 150
    rs = np.random.RandomState((seed * 31 + 7) % (2 ** 32))
    return [{'kind': k, 'K': K, 'seed': int(rs.randint(0, 2 ** 31 - 1))} for k in ('beta', 'gamma', 'student_t', 'loglaplace', 'truncnorm')]


def oracle_mle(case):
    """scipy-MLE families inside GaussianMultivariate: >= 80% of datasets recover the generating marginal."""
    rs = np.random.RandomState(case['seed'])
    kind, K = case['kind'], case['K']
    ok = 0
    for _ in range(K):
        n = int(rs.randint(400, 1500))
        spec = {'kind': kind, 'a': float(rs.uniform(1.0, 8.0)), 'b': float(rs.uniform(1.0, 8.0)), 'loc': float(rs.uniform(-100, 100)),
                'scale_exp': float(rs.uniform(-1, 2))}
        table = {'corr': {'d': 2, 'kind': 'equi', 'lam': 0.5, 'rho': float(rs.uniform(-0.8, 0.8)), 'seed': int(rs.randint(0, 10 ** 6))},
                 'marginals': [spec, {'kind': 'normal', 'a': 1, 'b': 1, 'loc': 0.0, 'scale_exp': 0.0}], 'n': n,
                 'seed': int(rs.randint(0, 2 ** 31 - 1)), 'constant_cols': [], 'names': 'str'}
        df, _ = S.build_table(table)
        names = list(df.columns)
        cfg = {'mode': 'dict', 'cols': {'0': {'form': 'class', 'name': MATCH[kind]}, '1': {'form': 'class', 'name': 'GaussianUnivariate'}}}
        model = M.build_gaussian(cfg, names)
        value(model.fit, df.copy(), what='fit')
        x = df.iloc[:, 0].to_numpy()
        grid = np.quantile(x, np.linspace(0.0025, 0.9975, 200))
        Ffit = np.asarray(value(model.univariates[0].cdf, grid, what='univariate.cdf'), dtype=float)
        gap = np.max(np.abs(Ffit - S.marginal_cdf(spec, grid)))
        ok += bool(gap <= 4.0 / np.sqrt(n))
    p = vs.binom_pvalue_below(ok, K, 0.8)
    require(p >= vs.ALPHA_I, '%s marginals recovered in only %d of %d Gaussian-copula tables (required 80%%; p=%.3g)' % (kind, ok, K, p),
            tag='mle-recovery')
    return {'nontrivial': True, 'classes': ['mle:' + kind, 'rate>=0.8' if ok >= 0.8 * K else 'rate<0.8']}


SUBS = [
    Sub('schema_and_law', strategy((2500, 9000)), oracle, quick=64, thorough=0, shrink=False),
    Sub('schema_and_law_large', strategy((12000, 30000)), oracle, quick=0, thorough=960, shrink=False),
    Sub('recovery', recovery_strategy(), oracle_recovery, quick=160, thorough=4800),
    Sub('recovery_mle', None, oracle_mle, enumerate_cases=mle_cells),
]
