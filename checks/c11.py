"""C11 - select_copula returns a calibrated candidate and recovers the true family."""

import numpy as np
from hypothesis import strategies as st
from scipy import stats

from checks import c10
from vlib import stats as vs
from vlib import strategies as S
from vlib.harness import Sub, call, require, value
from vlib.refs import archimedean as ref

PROPERTY_ID = 'C11'
LEVEL = 'exploration'
RULE = ('consistency: arbitrary (n,2) pseudo-observation arrays (reference-copula samples with/without ties, monotone, '
        'anti-monotone, independent, exact tau=0, raw point lists, constant columns), n 2..3000; oracle: returned type in '
        '{Frank,Clayton,Gumbel}, tau == tau-b, theta == the family calibration, tau<=0 => Frank, and determinism (equal '
        'copies, different global RNG states, unrelated calls in between, deprecated alias). recovery: per '
        '(family, tau in {.3,.4,.5,.6,.7}, n in {3000,5000}) cell plus (family, tau, n) in {(.3,12000),(.6,20000)}, K datasets from an independent reference sampler '
        '(K=200 quick, 1000 thorough); fails only if the success count is significantly (exact binomial, alpha 1e-13) '
        'below the stated 70%. Non-trivial: tau > 0.05 (all three candidates compete); distinct = distinct generated case.')
ASSUMPTIONS = [
    'recovery is a statistical clause: a drop of the true recovery rate to above ~55-60% is not detected',
    'inputs whose Kendall tau is undefined (constant column) are rejected inputs (ValueError), counted',
]


def consistency_strategy():
    big = st.fixed_dictionaries({
        'kind': st.just('copula'), 'family': st.sampled_from(c10.FAMS), 'tau': st.floats(-0.9, 0.9),
        'n': st.integers(400, 3000), 'seed': S.SEEDS, 'round': st.sampled_from([None, None, 2]),
    })
    pos = st.fixed_dictionaries({
        'kind': st.just('copula'), 'family': st.sampled_from(c10.FAMS), 'tau': st.floats(0.02, 0.95),
        'n': st.integers(20, 1500), 'seed': S.SEEDS, 'round': st.sampled_from([None, None, 2, 1]),
    })
    return st.fixed_dictionaries({'data': st.one_of(c10.data_strategy(), c10.data_strategy(valid_only=True), big, pos, pos, pos), 'rng': S.SEEDS,
                                  'layout': st.sampled_from(['C', 'F', 'F-view'])})


def describe(cop):
    return (type(cop).__name__, None if cop.theta is None else float(cop.theta), None if cop.tau is None else float(cop.tau))


def oracle_consistency(case):
    from copulas import bivariate
    from copulas.bivariate import Bivariate, select_copula

    X = c10.build(case['data'])
    kind, exp = c10.expected(X)
    layout = case.get('layout', 'C')
    if layout == 'F':
        Xarg = np.asfortranarray(X.copy())
    elif layout == 'F-view':
        Xarg = np.vstack((X[:, 0], X[:, 1])).T          # a column-major view, as produced by stacking two vectors
    else:
        Xarg = X.copy()
    k1, out = call(select_copula, Xarg, allow=(ValueError,), what='select_copula')
    require(np.array_equal(Xarg, X), 'select_copula modified its %s-ordered input array' % layout, tag='input-mutated')
    if kind == 'refuse':
        require(k1 == 'exc', 'select_copula accepted invalid data (%s) and returned %r' % (exp, out), tag='accepted-invalid')
        return {'nontrivial': False, 'classes': ['rejected-input']}
    tau = exp
    if k1 == 'exc':
        # Frank cannot be calibrated at |tau| ~ 1 (solver range); everything else must be answered
        require(abs(tau) > 0.99, 'select_copula raised %s for valid data with tau=%r' % (out, tau), tag='spurious-refusal')
        return {'nontrivial': False, 'classes': ['refused-extreme-tau']}
    cop = out
    name = type(cop).__name__
    require(name in ('Frank', 'Clayton', 'Gumbel'), 'select_copula returned %r' % (cop,), tag='type')
    require(abs(float(cop.tau) - tau) <= 1e-15, 'select_copula: tau=%r, Kendall tau-b of X is %r' % (cop.tau, tau), tag='tau')
    fam = name.lower()
    if abs(tau) < 1:
        c10.check_fitted(fam, cop, X, tau)
    if tau <= 0:
        require(name == 'Frank', 'select_copula returned %s for tau=%r <= 0' % (name, tau), tag='nonpositive-tau')
    # determinism
    d0 = describe(cop)
    st0 = np.random.get_state()
    np.random.seed(case['rng'] % (2 ** 32))
    np.random.uniform(size=3)
    bivariate.Frank().fit(np.random.RandomState(1).uniform(size=(30, 2)))   # unrelated call in between
    d1 = describe(value(select_copula, Xarg, what='select_copula (same array object again)'))
    np.random.set_state(st0)
    require(d1 == d0, 'select_copula is not deterministic: %r then %r on the same data' % (d0, d1), tag='determinism')
    # a function of X alone: a slightly different array (the second coordinates of two rows exchanged, so Kendall's tau
    # moves by a few 1e-4 at most) must get its own calibration, not anything remembered from the call above
    if len(X) >= 4 and abs(tau) < 0.99:
        i, j = (case['rng'] % len(X)), ((case['rng'] // 7 + 1) % len(X))
        X2 = X.copy()
        X2[[i, j], 1] = X2[[j, i], 1]
        kind2, tau2 = c10.expected(X2)
        if kind2 == 'tau' and abs(tau2) < 0.99:
            k2, cop2 = call(select_copula, X2.copy(), allow=(ValueError,), what='select_copula (neighbouring array)')
            require(k2 == 'ok', 'select_copula raised %s for valid data with tau=%r' % (cop2, tau2), tag='spurious-refusal')
            require(abs(float(cop2.tau) - tau2) <= 1e-15, 'select_copula on a neighbouring array: tau=%r, Kendall tau-b is %r (the previous array had %r)'
                    % (cop2.tau, tau2, tau), tag='tau')
            c10.check_fitted(type(cop2).__name__.lower(), cop2, X2, tau2)
    import warnings

    with warnings.catch_warnings():
        warnings.simplefilter('ignore')
        d2 = describe(value(Bivariate.select_copula, X.copy(), what='Bivariate.select_copula'))
    require(d2 == d0, 'Bivariate.select_copula alias returns %r, select_copula %r' % (d2, d0), tag='alias')
    return {'nontrivial': tau > 0.05, 'classes': ['selected:' + name, 'data:' + case['data']['kind'],
                                                  'tau>0' if tau > 0 else 'tau<=0']}


def recovery_cells(tier, seed):
    """Every (family, tau, n) cell is enumerated; the dataset seeds derive from VERIF_SEED."""
    K, reps = (200, 1) if tier == 'quick' else (1000, 4)
    rs = np.random.RandomState(seed % (2 ** 32))
    cases = []
    for rep in range(reps):
        for fam in c10.FAMS:
            for tau in (0.3, 0.4, 0.5, 0.6, 0.7):
                for n in (3000, 5000):
                    cases.append({'family': fam, 'tau': tau, 'n': n, 'seed': int(rs.randint(0, 2 ** 31 - 1)), 'K': K})
            # very strong dependence as well (Frank only up to tau 0.85: its CDF overflows for theta > 37, i.e. tau > 0.9,
            # which is outside the supported range of C06 and makes the tail comparison meaningless there)
            for tau in ((0.85, 0.93) if fam != 'frank' else (0.85,)):
                cases.append({'family': fam, 'tau': tau, 'n': 3000, 'seed': int(rs.randint(0, 2 ** 31 - 1)), 'K': max(40, K // 5)})
            # "n >= 3000": a few large samples per family as well (fewer datasets, they are expensive)
            for tau, n in ((0.3, 12000), (0.6, 20000)):
                cases.append({'family': fam, 'tau': tau, 'n': n, 'seed': int(rs.randint(0, 2 ** 31 - 1)), 'K': max(40, K // 5)})
    order = rs.permutation(len(cases))
    return [cases[i] for i in order]


def oracle_recovery(case):
    from copulas.bivariate import select_copula

    fam, tau, n, K = case['family'], case['tau'], case['n'], case['K']
    th = ref.theta_from_tau(fam, tau)
    rs = np.random.RandomState(case['seed'])
    ok = 0
    picks = {}
    for _ in range(K):
        X = np.clip(ref.sample_ref(fam, th, n, rs), 0, 1)
        cop = value(select_copula, X, what='select_copula')
        nm = type(cop).__name__.lower()
        picks[nm] = picks.get(nm, 0) + 1
        ok += nm == fam
    p = vs.binom_pvalue_below(ok, K, 0.7)
    require(p >= vs.ALPHA_I, 'select_copula recovered %s (tau=%r, n=%d) in only %d of %d datasets (%r); required >= 70%%, binomial p=%.3g'
            % (fam, tau, n, ok, K, picks, p), tag='recovery')
    return {'nontrivial': True, 'classes': ['cell:%s/%.2f/%d' % (fam, tau, n), 'rate>=0.9' if ok >= 0.9 * K else 'rate<0.9']}


SUBS = [
    Sub('consistency', consistency_strategy(), oracle_consistency, quick=1200, thorough=32000),
    Sub('recovery', None, oracle_recovery, enumerate_cases=recovery_cells),
]
