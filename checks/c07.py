"""C07 - copula density and conditional CDF are the derivatives of the CDF."""

import math

import numpy as np
from hypothesis import strategies as st
from vlib.harness import call, target
from scipy import integrate

from vlib import strategies as S
from vlib.harness import Sub, require, value
from vlib.refs import archimedean as ref

PROPERTY_ID = 'C07'
LEVEL = 'exploration'
RULE = ('family x theta (|tau|<=0.8, Gumbel theta=1 exactly in >=5%) x batches of 1..16 points of [1e-4,1-1e-4]^2 '
        '(uniform + edge-hugging mixture). Oracles: h and c against mpmath.diff (40+ digits) of the *reference* CDF; '
        'range/monotonicity/limits of h; c>=0, symmetry, log c; adaptive-quadrature integral identities between the '
        "code's own C, h and c on generated intervals/rectangles; row independence. Non-trivial: theta away from "
        'independence (or Gumbel theta=1, its own class) and an interior point; distinct = distinct generated case.')
ASSUMPTIONS = [
    'reference derivatives are mpmath.diff of the 50-digit reference CDF (no finite differences in float64)',
    'density tolerance rel 1e-9 (Clayton/Gumbel), 1e-9+64*eps*e^|theta| (Frank, cancellation in (g(u)g(v)+g(1))^2)',
    'quadrature identities: tolerance 1e-7 + 10 x reported quadrature error',
]
EPS = np.finfo(float).eps


def tol_c(fam, th):
    # Frank: cancellation in (g(u)g(v)+g(1))^2 costs eps*e^|theta|, and g(z)=exp(-theta z)-1 costs eps/|theta| as theta -> 0
    return 1e-9 + (64 * EPS * (math.exp(abs(th)) + 1.0 / abs(th)) if fam == 'frank' else 0.0)


def arr(cop, meth, X, what):
    X = np.array(X, dtype=float).reshape(-1, 2)
    out = np.asarray(value(getattr(cop, meth), X, what='%s.%s' % (type(cop).__name__, meth)), dtype=float)
    require(out.shape == (len(X),), '%s returned shape %s for %d rows' % (meth, out.shape, len(X)))
    return out


def classes(fam, th, pts):
    out = [fam]
    if fam == 'gumbel' and th == 1:
        out.append('gumbel-theta=1')
    if any(min(u, v, 1 - u, 1 - v) < 1e-3 for u, v in pts):
        out.append('edge-hugging')
    return out


def nontrivial(fam, th, pts):
    if fam == 'gumbel':
        return True          # theta == 1 is the independence member and its own class
    return abs(th) > 1e-9


def case_strategy(max_pts=16):
    @st.composite
    def cases(draw):
        fam, th = draw(S.family_theta())
        pts = draw(S.interior_points(1, max_pts))
        return {'family': fam, 'theta': th, 'pts': pts, 'probe': draw(st.integers(0, len(pts) - 1)),
                'perm_seed': draw(st.integers(0, 10 ** 6))}

    return cases()


def oracle_reference(case):
    fam, th, pts = case['family'], case['theta'], case['pts']
    cop = S.make_copula(fam, th)
    S.interleave_sibling(cop, fam, th, pts)        # two live copulas of one family: nothing is remembered across them
    U = np.array([p[0] for p in pts])
    V = np.array([p[1] for p in pts])
    h = arr(cop, 'partial_derivative', pts, 'h')
    c = arr(cop, 'probability_density', pts, 'c')
    require(np.all(np.isfinite(h)) and np.all(np.isfinite(c)), '%s(theta=%r): non-finite h or c at %r' % (fam, th, pts[:3]))
    href = ref.h_ref(fam, th, U, V)
    cref = ref.pdf_ref(fam, th, U, V)
    tc = tol_c(fam, th)
    eh = np.abs(h - href)
    j = int(eh.argmax())
    require(eh[j] <= tc, '%s(theta=%r): partial_derivative(%r,%r)=%r but dC/dv=%r (diff %.3g)'
            % (fam, th, U[j], V[j], h[j], href[j], eh[j]), tag='h-reference', detail={'u': U[j], 'v': V[j]})
    ec = np.abs(c - cref) / (1 + np.abs(cref))
    k = int(ec.argmax())
    require(ec[k] <= tc, '%s(theta=%r): probability_density(%r,%r)=%r but d2C/dudv=%r (rel diff %.3g, tol %.3g)'
            % (fam, th, U[k], V[k], c[k], cref[k], ec[k], tc), tag='c-reference', detail={'u': U[k], 'v': V[k]})
    target(float(max(eh[j], ec[k]) / tc), label='derivative err/tol')
    return {'nontrivial': nontrivial(fam, th, pts), 'classes': classes(fam, th, pts)}


def oracle_invariants(case):
    fam, th, pts = case['family'], case['theta'], case['pts']
    cop = S.make_copula(fam, th)
    S.interleave_sibling(cop, fam, th, pts)        # two live copulas of one family: nothing is remembered across them
    n = len(pts)
    U = np.array([p[0] for p in pts])
    V = np.array([p[1] for p in pts])
    h = arr(cop, 'partial_derivative', pts, 'h')
    c = arr(cop, 'probability_density', pts, 'c')
    require(np.all((h >= -1e-12) & (h <= 1 + 1e-12)), '%s(theta=%r): partial_derivative outside [0,1]: %r at %r'
            % (fam, th, h[(h < -1e-12) | (h > 1 + 1e-12)][:3], [pts[i] for i in np.where((h < -1e-12) | (h > 1 + 1e-12))[0][:3]]), tag='h-range')
    require(np.all(c >= 0), '%s(theta=%r): negative density %r' % (fam, th, c[c < 0][:3]), tag='c-sign')
    # symmetry of the density
    cs = arr(cop, 'probability_density', [[v, u] for u, v in pts], 'c')
    require(np.all(np.abs(c - cs) <= 1e-12 * np.abs(c) + (tol_c(fam, th) * (1 + np.abs(c)) if fam == 'frank' else 0)),
            '%s(theta=%r): c(u,v) != c(v,u): %r vs %r' % (fam, th, c[:3], cs[:3]), tag='c-symmetry')
    # log density
    lc = arr(cop, 'log_probability_density', pts, 'log c')
    pos = c > 1e-300
    require(np.all(np.abs(np.exp(lc[pos]) - c[pos]) <= 1e-12 * c[pos]) and np.all(lc[~pos] < -600),
            '%s(theta=%r): log_probability_density is not log(probability_density)' % (fam, th), tag='log-density')
    # h is non-decreasing in u for a fixed v, with limits 0 at u=0 and 1 at u=1
    v0 = float(V[case['probe'] % n])
    us = np.sort(np.concatenate(([0.0], U, [1.0])))
    hs = arr(cop, 'partial_derivative', np.column_stack((us, np.full(len(us), v0))), 'h')
    require(np.all(np.isfinite(hs)), '%s(theta=%r): partial_derivative not finite on u-grid incl. 0 and 1 at v=%r: %r'
            % (fam, th, v0, hs), tag='h-limits')
    slack = 1e-12 + (tol_c(fam, th) if fam == 'frank' else 0)
    d = np.diff(hs)
    require(np.all(d >= -slack), '%s(theta=%r): partial_derivative decreases in u at v=%r: %r' % (fam, th, v0, d[d < -slack][:3]),
            tag='h-monotone')
    require(abs(hs[0]) <= 1e-12 and abs(hs[-1] - 1) <= 1e-12 + slack,
            '%s(theta=%r): partial_derivative(0,v)=%r, partial_derivative(1,v)=%r at v=%r (must be 0 and 1)'
            % (fam, th, hs[0], hs[-1], v0), tag='h-limits')
    # the scalar form of the same function: partial_derivative_scalar(u, v) is partial_derivative([[u, v]]), also when
    # the end points of the u-range are written as integers (0, 1) or as an integer array
    k0 = case['probe'] % n
    hs1 = float(np.ravel(value(cop.partial_derivative_scalar, float(U[k0]), float(V[k0]), what='partial_derivative_scalar'))[0])
    require(abs(hs1 - h[k0]) <= 1e-13 * abs(h[k0]) + 1e-300, '%s(theta=%r): partial_derivative_scalar(%r, %r)=%r but partial_derivative gives %r'
            % (fam, th, U[k0], V[k0], hs1, h[k0]), tag='h-scalar')
    for u_int, what_ in ((1, 'the int 1'), (0, 'the int 0'), (np.array([0, 1, 1]), 'an integer array')):
        u_flt = np.asarray(u_int, dtype=float)
        kd_, got_i = call(cop.partial_derivative_scalar, u_int, v0, allow=(TypeError, ValueError), what='partial_derivative_scalar')
        if kd_ == 'exc':
            continue                     # refusing an integer argument is not a wrong value
        want_f = np.ravel(value(cop.partial_derivative_scalar, u_flt, v0, what='partial_derivative_scalar'))
        got_i = np.ravel(np.asarray(got_i, dtype=float))
        require(got_i.shape == want_f.shape and np.allclose(got_i, want_f, rtol=1e-12, atol=1e-300, equal_nan=True),
                '%s(theta=%r): partial_derivative_scalar(u, v=%r) with u given as %s is %r, with the same u as float %r'
                % (fam, th, v0, what_, got_i, want_f), tag='h-scalar-int')
    # row independence
    k = case['probe'] % n
    for meth, full in (('partial_derivative', h), ('probability_density', c)):
        alone = arr(cop, meth, [pts[k]], meth)[0]
        require(abs(alone - full[k]) <= 1e-13 * abs(full[k]) + 1e-300,
                '%s(theta=%r): %s row %d alone %r vs in batch %r' % (fam, th, meth, k, alone, full[k]), tag='row-independence')
        perm = np.random.RandomState(case['perm_seed']).permutation(n)
        fp = arr(cop, meth, [pts[i] for i in perm], meth)
        require(np.all(np.abs(fp - full[perm]) <= 1e-13 * np.abs(full[perm]) + 1e-300),
                '%s(theta=%r): %s changes when the batch is permuted' % (fam, th, meth), tag='row-independence')
    # ... also when the batch holds a row from the edge or from an extreme corner of the unit square: whatever that row
    # evaluates to, the interior rows keep their values (one overflowing row must not decide for the whole batch)
    ext = EXTREME_ROWS[case['perm_seed'] % len(EXTREME_ROWS)]
    front = (case['perm_seed'] // len(EXTREME_ROWS)) % 2 == 0
    mixed = ([list(ext)] + [list(p) for p in pts]) if front else ([list(p) for p in pts] + [list(ext)])
    for meth, full in (('partial_derivative', h), ('probability_density', c)):
        kind_, got = call(getattr(cop, meth), np.array(mixed, dtype=float), allow=(ValueError, ZeroDivisionError, FloatingPointError), what=meth)
        if kind_ == 'exc':
            continue                     # a refusal of the extreme row is not a statement about the other rows
        got = np.asarray(got, dtype=float)
        inner = got[1:] if front else got[:-1]
        require(inner.shape == full.shape and np.all(np.abs(inner - full) <= 1e-13 * np.abs(full) + 1e-300),
                '%s(theta=%r): %s of the interior rows changes when the row %r joins the batch: %r -> %r'
                % (fam, th, meth, ext, full[:3], inner[:3]), tag='row-independence')
    return {'nontrivial': nontrivial(fam, th, pts), 'classes': classes(fam, th, pts)}


EXTREME_ROWS = [(0.0, 0.0), (1.0, 1.0), (0.0, 0.4), (0.3, 0.0), (1.0, 0.6), (0.7, 1.0), (1e-40, 1e-40), (1e-200, 1e-200),
                (0.5, 1e-40), (1e-40, 0.5), (1 - 1e-16, 1 - 1e-16), (1e-200, 1 - 1e-16)]


def integral_strategy():
    @st.composite
    def cases(draw):
        fam, th = draw(S.family_theta())
        c = S.interior_coord(1e-3, 1 - 1e-3)
        return {'family': fam, 'theta': th, 'u1': draw(c), 'u2': draw(c), 'v1': draw(c), 'v2': draw(c)}

    return cases()


def oracle_integrals(case):
    fam, th = case['family'], case['theta']
    cop = S.make_copula(fam, th)
    u1, u2 = sorted((case['u1'], case['u2']))
    v1, v2 = sorted((case['v1'], case['v2']))
    if u2 - u1 < 1e-6 or v2 - v1 < 1e-6:
        return {'nontrivial': False, 'classes': ['degenerate-interval']}
    name = type(cop).__name__

    def C(u, v):
        return float(value(cop.cumulative_distribution, np.array([[u, v]]), what=name + '.cumulative_distribution')[0])

    def h(u, v):
        return float(value(cop.partial_derivative, np.array([[u, v]]), what=name + '.partial_derivative')[0])

    def c(u, v):
        return float(value(cop.probability_density, np.array([[u, v]]), what=name + '.probability_density')[0])

    extra = tol_c(fam, th)
    # C(u,v2)-C(u,v1) = int h(u,v) dv
    val, err = integrate.quad(lambda v: h(u2, v), v1, v2, epsabs=1e-11, epsrel=1e-11, limit=200)
    lhs = C(u2, v2) - C(u2, v1)
    require(abs(lhs - val) <= 1e-7 + 10 * err + extra, '%s(theta=%r): C(u,v2)-C(u,v1)=%r but integral of partial_derivative=%r (u=%r, v in [%r,%r])'
            % (fam, th, lhs, val, u2, v1, v2), tag='int-h')
    # h(u2,v)-h(u1,v) = int c(u,v) du
    val2, err2 = integrate.quad(lambda u: c(u, v2), u1, u2, epsabs=1e-11, epsrel=1e-11, limit=200)
    lhs2 = h(u2, v2) - h(u1, v2)
    require(abs(lhs2 - val2) <= 1e-7 + 10 * err2 + extra * (1 + abs(val2)), '%s(theta=%r): h(u2,v)-h(u1,v)=%r but integral of density=%r (v=%r, u in [%r,%r])'
            % (fam, th, lhs2, val2, v2, u1, u2), tag='int-c')
    # rectangle volume = double integral of c (via inner identity already checked: integrate h difference)
    val3, err3 = integrate.quad(lambda v: h(u2, v) - h(u1, v), v1, v2, epsabs=1e-11, epsrel=1e-11, limit=200)
    vol = C(u2, v2) - C(u2, v1) - C(u1, v2) + C(u1, v1)
    require(abs(vol - val3) <= 1e-7 + 10 * err3 + extra, '%s(theta=%r): C-volume %r != integral %r on [%r,%r]x[%r,%r]'
            % (fam, th, vol, val3, u1, u2, v1, v2), tag='int-volume')
    return {'nontrivial': nontrivial(fam, th, []), 'classes': [fam]}


SUBS = [
    Sub('reference_derivatives', case_strategy(12), oracle_reference, quick=640, thorough=96000, use_target=True),
    Sub('invariants', case_strategy(24), oracle_invariants, quick=1600, thorough=288000, use_target=True),
    Sub('integral_identities', integral_strategy(), oracle_integrals, quick=480, thorough=72000, use_target=True),
]
