import sys; sys.path.insert(0,'/tmp/scratch/repo')
import numpy as np, warnings, time
warnings.simplefilter('ignore')
from scipy import stats, integrate
from copulas.univariate import *
rs=np.random.RandomState(7)
def data():
    k=rs.randint(6); n=int(rs.choice([5,20,200,1000])); loc=rs.uniform(-1e3,1e3); sc=10**rs.uniform(-3,3)
    if k==0: x=rs.normal(size=n)
    elif k==1: x=rs.gamma(rs.uniform(.3,5),size=n)
    elif k==2: x=rs.beta(rs.uniform(.2,3),rs.uniform(.2,3),size=n)
    elif k==3: x=np.concatenate([rs.normal(size=n//2+1),rs.normal(8,.5,size=n//2+1)])
    elif k==4: x=rs.randint(0,6,size=max(n,12)).astype(float)  # heavy ties
    else: x=rs.standard_t(2,size=n)
    x=loc+sc*x
    if len(np.unique(x))<5: x=np.concatenate([x, loc+sc*np.arange(5)])
    return x
viol={}
def note(k,msg):
    viol.setdefault(k,[]); 
    if len(viol[k])<3: viol[k].append(msg)
mods=[(GaussianUnivariate,{}),(UniformUnivariate,{}),(BetaUnivariate,{}),(GammaUnivariate,{}),(StudentTUnivariate,{}),(LogLaplace,{}),(TruncatedGaussian,{}),(GaussianKDE,{}),(GaussianKDE,{'bw_method':'silverman'}),(GaussianKDE,{'bw_method':0.2}),(GaussianKDE,{'bw_method':1.0}),(GaussianKDE,{'sample_size':40})]
t0=time.time(); cnt=0
for it in range(60):
    x=data()
    for cls,kw in mods:
        name=cls.__name__+str(kw)
        np.random.seed(1)
        m=cls(**kw)
        try: m.fit(x)
        except Exception as e: note(name+':fitEXC', repr(e)[:80]); continue
        cnt+=1
        lo,hi=x.min(),x.max(); r=hi-lo
        g=np.sort(np.concatenate([rs.uniform(lo-2*r,hi+2*r,60), x[:20], [lo-1e6*r, hi+1e6*r]]))
        try:
            F=m.cdf(g); f=m.pdf(g)
        except Exception as e: note(name+':cdfEXC', repr(e)[:80]); continue
        if np.isnan(F).any(): note(name+':cdfNaN',(float(lo),float(r)))
        if (np.diff(F)<-1e-9).any(): note(name+':nonmono', float(np.diff(F).min()))
        if (F<-1e-6).any() or (F>1+1e-6).any(): note(name+':range',(float(F.min()),float(F.max())))
        if abs(F[0])>1e-6 or abs(F[-1]-1)>1e-6: note(name+':limits',(float(F[0]),float(F[-1])))
        if (f<0).any() or np.isnan(f).any(): note(name+':pdfneg', float(np.nanmin(f)))
        q=np.concatenate([rs.uniform(1e-6,1-1e-6,40),[1e-6,1-1e-6,.5]]); q.sort()
        try:
            xq=m.ppf(q)
        except Exception as e: note(name+':ppfEXC', repr(e)[:80]); continue
        if (np.diff(xq)<-1e-9*max(1,abs(r))).any(): note(name+':ppfnonmono', float(np.diff(xq).min()))
        rt=np.abs(m.cdf(xq)-q)
        if rt.max()>1e-6: note(name+':cdf(ppf(q))', (float(rt.max()), float(q[np.argmax(rt)]), len(x)))
        # integral
        a,b=np.sort(rs.uniform(lo-.2*r,hi+.2*r,2))
        val,err=integrate.quad(lambda t: float(np.ravel(m.pdf(np.array([t])))[0]), a,b, limit=200)
        dF=m.cdf(np.array([b]))[0]-m.cdf(np.array([a]))[0]
        if abs(val-dF)>1e-6+10*err: note(name+':integral',(val,dF,err))
        try: lp=m.log_probability_density(g[1:-1])
        except Exception as e: note(name+':logpdfEXC', repr(e)[:80]); continue
        with np.errstate(all='ignore'):
            if not np.allclose(lp, np.log(m.pdf(g[1:-1])), rtol=1e-9, atol=1e-9, equal_nan=True): note(name+':logpdf', 1)
for k,v in sorted(viol.items()): print(k, v)
print('cnt',cnt, round(time.time()-t0,1))
