import sys; sys.path.insert(0,'/tmp/scratch/repo')
import numpy as np, warnings, time
warnings.simplefilter('ignore')
from scipy import stats
from copulas.univariate import *
rs=np.random.RandomState(5)
rows=[]
for i in range(150):
    loc=rs.uniform(-100,100); scale=10**rs.uniform(-2,3)
    a=rs.uniform(-3,0); b=a+rs.uniform(1,5); d=stats.truncnorm(a,b,loc,scale)
    n=int(rs.choice([200,1000,5000]))
    x=d.rvs(n, random_state=rs)
    m=TruncatedGaussian(); m.fit(x)
    grid=np.quantile(x, np.linspace(0,1,201))
    ks=np.abs(m.cdf(grid)-d.cdf(grid)).max()*np.sqrt(n)
    m2=TruncatedGaussian(minimum=d.support()[0], maximum=d.support()[1]); m2.fit(x)
    ks2=np.abs(m2.cdf(grid)-d.cdf(grid)).max()*np.sqrt(n)
    rows.append((ks,ks2,loc,scale,a,b,n,m._params['loc'],m._params['scale']))
rows.sort(reverse=True)
for r in rows[:25]: print(['%.3g'%v for v in r])
print('frac ks>3:', np.mean([r[0]>3 for r in rows]), 'with true bounds:', np.mean([r[1]>3 for r in rows]))
