import sys; sys.path.insert(0,'/tmp/scratch/repo')
import numpy as np, warnings, time
warnings.simplefilter('ignore')
from scipy.stats import kstest
from copulas.univariate import *
from copulas.utils import get_instance
rs=np.random.RandomState(11)
fams=[GaussianUnivariate,UniformUnivariate,BetaUnivariate,GammaUnivariate,StudentTUnivariate,LogLaplace,TruncatedGaussian,GaussianKDE]
print(sorted(c.__name__ for c in Univariate()._select_candidates()))
for p in (None,ParametricType.PARAMETRIC,ParametricType.NON_PARAMETRIC):
    for b in (None,BoundedType.BOUNDED,BoundedType.SEMI_BOUNDED,BoundedType.UNBOUNDED):
        exp={c for c in fams if (p is None or c.PARAMETRIC==p) and (b is None or c.BOUNDED==b)}
        try:
            got=set(Univariate(parametric=p,bounded=b).candidates)
        except Exception as e: got=repr(e)
        if got!=exp: print('MISMATCH',p,b,got,exp)
t0=time.time(); bad=0
for it in range(40):
    k=rs.randint(6); n=int(rs.choice([30,200,800]))
    x={0:rs.normal(3,2,n),1:rs.uniform(-1,4,n),2:rs.beta(.5,2,n)*10,3:rs.gamma(2,3,n)-5,4:rs.standard_t(3,n),5:np.concatenate([rs.normal(0,1,n//2),rs.normal(7,1,n-n//2)])}[k]
    u=Univariate(); u.fit(x)
    sel=u.to_dict()['type'].rsplit('.',1)[1]
    ks={}
    for c in u.candidates:
        try:
            inst=get_instance(c); inst.fit(x); ks[c.__name__]=kstest(x,inst.cdf)[0]
        except Exception as e: ks[c.__name__]=None
    best=min(v for v in ks.values() if v is not None)
    ok= ks.get(sel) is not None and ks[sel]<=best+1e-12
    if not ok: bad+=1; print('BAD',k,n,sel,ks)
print('bad',bad,round(time.time()-t0,1))
# empty filter combination
try:
    u=Univariate(parametric=ParametricType.NON_PARAMETRIC,bounded=BoundedType.BOUNDED); print('cands',u.candidates); u.fit(rs.normal(size=50)); print(u.to_dict()['type'])
except Exception as e: print('empty filter EXC',repr(e)[:120])
