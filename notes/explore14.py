import sys; sys.path.insert(0,'/tmp/scratch/repo')
import numpy as np, warnings, time, pandas as pd
warnings.simplefilter('ignore')
from copulas.multivariate import VineCopula
from copulas.bivariate import select_copula, Bivariate
from copulas.utils import EPSILON
rs=np.random.RandomState(int(sys.argv[1]) if len(sys.argv)>1 else 0)
def rand_table(d,n):
    A=rs.normal(size=(d,d)); S=A@A.T+ 0.5*np.eye(d); D=np.sqrt(np.diag(S)); S=S/np.outer(D,D)
    z=rs.multivariate_normal(np.zeros(d),S,size=n)
    return pd.DataFrame(z,columns=[f'c{i}' for i in range(d)])
def cop(name,theta):
    c=Bivariate(copula_type=name); c.theta=theta; return c
def hfun(c,a,b):  # F(a|b)
    r=c.partial_derivative(np.column_stack([a,b])).copy()
    return r
def check(v):
    """Return list of discrepancies between code's edges and the variable-identity reference."""
    errs=[]
    # ref[k][(x, frozenset(D))] = pseudo obs of variable x given D (training data)
    ref={(i,frozenset()):v.u_matrix[:,i] for i in range(v.n_var)}
    for k,tr in enumerate(v.trees,1):
        new={}
        for e in tr.edges:
            L,R,D=int(e.L),int(e.R),frozenset(map(int,e.D))
            if (L,D) not in ref or (R,D) not in ref: errs.append(('missing',k,L,R,sorted(D))); continue
            a,b=ref[(L,D)],ref[(R,D)]
            s=select_copula(np.column_stack([a,b]))
            if s.copula_type!=e.name or not np.isclose(s.theta,e.theta,rtol=1e-9,atol=0): errs.append(('copula',k,L,R,sorted(D),s.copula_type.name,s.theta,e.name.name,e.theta))
            c=cop(e.name,e.theta)
            lgr=hfun(c,a,b); rgl=hfun(c,b,a)
            for arr in (lgr,rgl):
                arr[arr==0]=EPSILON; arr[arr==1]=1-EPSILON
            if not (np.allclose(e.U[0],lgr,atol=1e-12) and np.allclose(e.U[1],rgl,atol=1e-12)): errs.append(('U',k,L,R,sorted(D), float(np.abs(e.U[0]-lgr).max()), float(np.abs(e.U[1]-rgl).max())))
            if not ((e.U>0)&(e.U<1)).all(): errs.append(('Urange',k,L,R))
            new[(L,D|{R})]=e.U[0]; new[(R,D|{L})]=e.U[1]
        ref=new
    return errs
def ref_lik(v,u):
    ref={(i,frozenset()):u[i] for i in range(v.n_var)}; tot=0
    for k,tr in enumerate(v.trees,1):
        new={}
        for e in tr.edges:
            L,R,D=int(e.L),int(e.R),frozenset(map(int,e.D))
            a,b=ref[(L,D)],ref[(R,D)]
            c=cop(e.name,e.theta)
            tot+=np.log(c.probability_density(np.array([[a,b]]))[0])
            new[(L,D|{R})]=c.partial_derivative(np.array([[a,b]]))[0]; new[(R,D|{L})]=c.partial_derivative(np.array([[b,a]]))[0]
        ref=new
    return tot
bad=0; n_mis=0
for it in range(120):
    d=rs.randint(2,7); n=int(rs.choice([50,150])); t=rs.choice(['center','direct','regular']); trunc=int(rs.randint(1,7))
    df=rand_table(d,n)
    try:
        v=VineCopula(t); v.fit(df,truncated=trunc)
    except ValueError as e: continue
    errs=check(v)
    u=rs.uniform(.05,.95,d)
    l1=v.get_likelihood(u[None,:]); l2=ref_lik(v,u)
    if errs or not np.isclose(l1,l2,rtol=1e-9,atol=1e-9):
        bad+=1
        if bad<=8: print(t,d,trunc,'errs',errs[:2],'lik',l1,l2)
print('bad',bad)
