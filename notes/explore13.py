import sys; sys.path.insert(0,'/tmp/scratch/repo')
import numpy as np, warnings, time, pandas as pd, itertools, signal, traceback
warnings.simplefilter('ignore')
from copulas.multivariate import VineCopula
from scipy.stats import kendalltau
rs=np.random.RandomState(int(sys.argv[1]) if len(sys.argv)>1 else 0)
def rand_table(d,n):
    kind=rs.randint(1,3)
    A=rs.normal(size=(d,d)); S=A@A.T+ (0.05 if kind else 3)*np.eye(d); D=np.sqrt(np.diag(S)); S=S/np.outer(D,D)
    z=rs.multivariate_normal(np.zeros(d),S,size=n)
    if kind==2: z=np.round(z,1)   # ties
    if kind==3: z[:,rs.randint(d)]=np.exp(z[:,rs.randint(d)])
    return pd.DataFrame(z,columns=[f'c{i}' for i in range(d)])
def is_tree(nodes, edges):
    # edges list of (a,b) over node ids; connected & |E|=|V|-1
    if len(edges)!=len(nodes)-1: return False
    adj={v:set() for v in nodes}
    for a,b in edges: adj[a].add(b); adj[b].add(a)
    seen=set(); st=[next(iter(nodes))]
    while st:
        v=st.pop()
        if v in seen: continue
        seen.add(v); st.extend(adj[v]-seen)
    return seen==set(nodes)
def validate(v,d,t,trunc,df):
    errs=[]
    exp=max(1,min(d-1,trunc))
    if len(v.trees)!=exp: errs.append(f'ntrees {len(v.trees)} != {exp}')
    prev=None; seen_pairs=set()
    for k,tr in enumerate(v.trees, start=1):
        E=tr.edges
        if len(E)!=d-k: errs.append(f'tree{k} edges {len(E)} != {d-k}')
        for e in E:
            full={int(e.L),int(e.R)}|set(int(x) for x in e.D)
            if e.L==e.R: errs.append('L==R')
            if len(e.D)!=k-1: errs.append(f'tree{k} |D|={len(e.D)}')
            pair=frozenset((int(e.L),int(e.R)))
            if pair in seen_pairs: errs.append(f'pair twice {pair}')
            seen_pairs.add(pair)
            if k>=2:
                p0,p1=e.parents
                f0={int(p0.L),int(p0.R)}|set(map(int,p0.D)); f1={int(p1.L),int(p1.R)}|set(map(int,p1.D))
                if len(f0&f1)!=k-1: errs.append(f'tree{k} proximity fail')
                if set(map(int,e.D))!=(f0&f1): errs.append('D != intersection')
                if {int(e.L),int(e.R)}!=(f0^f1): errs.append('cond != symdiff')
        if k==1:
            nodes=set(range(d)); edges=[(int(e.L),int(e.R)) for e in E]
        else:
            prevE=v.trees[k-2].edges
            idx={id(pe):i for i,pe in enumerate(prevE)}
            nodes=set(range(len(prevE)))
            def key(pe): return (int(pe.L),int(pe.R),frozenset(map(int,pe.D)))
            kidx={key(pe):i for i,pe in enumerate(prevE)}
            edges=[(kidx[key(e.parents[0])],kidx[key(e.parents[1])]) for e in E]
        if not is_tree(nodes,edges): errs.append(f'tree{k} not spanning tree {edges}')
        deg={}
        for a,b in edges: deg[a]=deg.get(a,0)+1; deg[b]=deg.get(b,0)+1
        if t=='center' and len(edges)>=1 and max(deg.values())!=len(edges): errs.append(f'tree{k} not star')
        if t=='direct' and len(edges)>=1 and max(deg.values())>2: errs.append(f'tree{k} not path')
        if t=='regular' and k==1:
            tau=df.corr(method='kendall').to_numpy()
            w=sum(abs(tau[a,b]) for a,b in edges)
            # brute-force MST via Kruskal
            allE=sorted(((abs(tau[a,b]),a,b) for a in range(d) for b in range(a+1,d)),reverse=True)
            par=list(range(d))
            def f(x):
                while par[x]!=x: x=par[x]
                return x
            best=0
            for ww,a,b in allE:
                if f(a)!=f(b): par[f(a)]=f(b); best+=ww
            if w<best-1e-9: errs.append(f'first tree not MST {w} < {best}')
        for e in E:
            name=e.name.name if hasattr(e.name,'name') else str(e.name)
            th=e.theta
            ok={'CLAYTON':th>0,'GUMBEL':th>=1,'FRANK':th!=0}[name] and np.isfinite(th)
            if not ok: errs.append(f'bad theta {name} {th}')
    return errs
class TO(Exception): pass
def h(*a): raise TO()
signal.signal(signal.SIGALRM,h)
cnt=0; bad=0
t0=time.time()
for it in range(600):
    d=rs.randint(2,8); n=int(rs.choice([30,80,200])); t=rs.choice(['center','direct','regular']); trunc=int(rs.randint(1,8))
    df=rand_table(d,n)
    try:
        signal.alarm(60)
        v=VineCopula(t); v.fit(df,truncated=trunc)
        signal.alarm(0)
        errs=validate(v,d,t,trunc,df)
        cnt+=1
        if errs: bad+=1; print('BAD',d,n,t,trunc,errs[:4])
    except TO: print('TIMEOUT',d,n,t,trunc)
    except Exception as e:
        signal.alarm(0); print('EXC',d,n,t,trunc,type(e).__name__,str(e)[:120])
print('done',cnt,bad,round(time.time()-t0,1))
