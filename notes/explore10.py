import sys; sys.path.insert(0,'/tmp/scratch/repo')
import numpy as np, warnings, time
warnings.simplefilter('ignore')
from copulas.bivariate import Frank, Clayton, Gumbel, select_copula
t0=time.time()
for cls in (Clayton,Gumbel,Frank):
    for tau in (0.3,0.5,0.7):
        hits=0; N=10
        for seed in range(N):
            c=cls(random_state=seed); c.tau=tau; c.theta=c.compute_theta()
            X=c.sample(3000)
            s=select_copula(X)
            hits+= type(s) is cls
        print(cls.__name__, tau, hits/N, round(time.time()-t0,1))
