import sys; sys.path.insert(0,'/tmp/scratch/repo')
import numpy as np, warnings, pandas as pd
warnings.simplefilter('ignore')
from copulas import visualization as V
from copulas.multivariate import GaussianMultivariate, VineCopula
from copulas.errors import NotFittedError
rs=np.random.RandomState(0)
real=pd.DataFrame(rs.normal(size=(6,4)),columns=['a','b','c','d']); synth=pd.DataFrame(rs.normal(size=(4,4)),columns=['a','b','c','d'])
cols=['c','a']
f=V.compare_2d(real,synth,columns=cols); print(cols,[ (t.name,type(t.x).__name__,len(t.x)) for t in f.data])
t=f.data[0]; print(np.allclose(np.sort(t.x),np.sort(real['c'])), np.allclose(np.sort(t.y),np.sort(real['a'])))
f=V.compare_3d(real,synth,columns=['d','b','a']); print([(t.name,len(t.x),len(t.z)) for t in f.data])
f=V.scatter_2d(real[['a','b']]); print([(t.name,len(t.x)) for t in f.data])
f=V.scatter_3d(real[['a','b','c']]); print([(t.name,len(t.x)) for t in f.data])
try: V.scatter_2d(real)
except Exception as e: print('4col default ->',type(e).__name__, e)
# duplicates rows / NaN?
real2=pd.concat([real,real.iloc[:2]],ignore_index=True)
f=V.compare_2d(real2,synth,columns=['a','b']); print([(t.name,len(t.x)) for t in f.data])
print('--- invalid inputs')
for mk in (lambda: GaussianMultivariate(), lambda: VineCopula('regular')):
    for name,X in [('empty',pd.DataFrame({'a':[],'b':[]})),('obj',pd.DataFrame({'a':['x','y','z'],'b':[1,2,3]})),('nan',pd.DataFrame({'a':[1.,np.nan,3.],'b':[1.,2.,3.]})),('bool',pd.DataFrame({'a':[True,False,True],'b':[False,True,True]})),('nparr_nan',np.array([[1.,np.nan],[2.,3.]])),('emptyarr',np.empty((0,2)))]:
        m=mk()
        try: m.fit(X); r='FIT OK'
        except Exception as e: r=type(e).__name__
        try: m.sample(1); s='sample ok'
        except Exception as e: s=type(e).__name__
        print(type(m).__name__,name,r,'fitted=',m.fitted,s)
m=VineCopula('center')
for fn in (lambda: m.sample(1), lambda: m.get_likelihood(np.array([[.1,.2]])), lambda: m.to_dict()):
    try: fn(); print('vine unfitted OK?')
    except Exception as e: print('vine unfitted', type(e).__name__)
