import sys; sys.path.insert(0,'/tmp/scratch/repo')
import numpy as np, warnings, traceback, pandas as pd
warnings.simplefilter('ignore')
import copulas; print(copulas.__file__)
from copulas.bivariate import Frank, Gumbel, Clayton, select_copula
from scipy.stats import norm, kendalltau
rs=np.random.RandomState(0)
z=rs.multivariate_normal([0,0],[[1,.6],[.6,1]],size=500)
U=norm.cdf(z)
for cls in (Frank,Gumbel,Clayton):
    c=cls(); c.fit(U); print(cls.__name__, c.tau, c.theta)
    c.set_random_state(1)
    s=c.sample(2000); print(' sample tau', kendalltau(s[:,0],s[:,1])[0], s.min(), s.max())
print(select_copula(U).copula_type)
from copulas.multivariate import VineCopula
cov=np.array([[1,.6,.3,.1,.4],[.6,1,.2,.5,.1],[.3,.2,1,.3,.2],[.1,.5,.3,1,.6],[.4,.1,.2,.6,1]])
df=pd.DataFrame(rs.multivariate_normal(np.zeros(5),cov,size=300),columns=list('abcde'))
for t in ('center','direct','regular'):
    for trunc in (1,3,5):
        try:
            v=VineCopula(t); v.fit(df, truncated=trunc); 
            print(t,trunc,'trees',len(v.trees), [[(e.L,e.R,sorted(e.D),e.name.name, round(e.theta,2)) for e in tr.edges] for tr in v.trees])
            u=np.array([[.3,.5,.2,.7,.6]])
            print('  lik', v.get_likelihood(u), v.get_likelihood(u))
            v.set_random_state(0)
            s=v.sample(3); print('  sample', s.shape, s.isna().sum().sum())
        except Exception: traceback.print_exc()
