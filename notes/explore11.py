import sys; sys.path.insert(0,'/tmp/scratch/repo')
import numpy as np, warnings, time
warnings.simplefilter('ignore')
from scipy import integrate
from copulas.bivariate import Frank, Clayton, Gumbel
import mpmath as mp
def tau_frank(th):
    th=mp.mpf(th)
    D1=mp.quad(lambda t: t/(mp.expm1(t)), [0,th])/th
    return 1-4/th*(1-D1)
for tau in [-0.999,-0.95,-0.8,-0.5,-0.1,-1e-3,-1e-6,0.0,1e-9,1e-6,1e-3,0.1,0.5,0.8,0.95,0.99,0.999]:
    f=Frank(); f.tau=tau
    t0=time.time()
    try:
        f._compute_theta()
        print(tau, f.theta, float(tau_frank(f.theta))-tau if f.theta!=0 else None, round(time.time()-t0,3))
    except Exception as e: print(tau,'EXC',repr(e)[:100])
# fit on tiny data sets with tau=0
X=np.array([[.1,.2],[.2,.1],[.3,.4],[.4,.3]])
from scipy.stats import kendalltau
print(kendalltau(X[:,0],X[:,1]))
X=np.array([[.1,.3],[.2,.1],[.3,.4],[.4,.2]]); print(kendalltau(X[:,0],X[:,1]))
for cls in (Clayton,Frank,Gumbel):
    c=cls()
    try:
        c.fit(X); print(cls.__name__, c.tau, c.theta)
        print('  cdf', c.cdf(np.array([[.3,.6]])), 'pd', c.partial_derivative(np.array([[.3,.6]])), 'pdf', c.pdf(np.array([[.3,.6]])))
    except Exception as e: print(cls.__name__, 'EXC', type(e).__name__, e)
