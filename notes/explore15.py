import sys; sys.path.insert(0,'/tmp/scratch/repo')
import numpy as np, warnings, time, pandas as pd, types
warnings.simplefilter('ignore')
import copulas.multivariate.tree as T, copulas.multivariate.vine as V
from copulas.multivariate import VineCopula
class NP:
    def __init__(self, poison): self.poison=poison
    def __getattr__(self, k): return getattr(np,k)
    def empty(self, shape, dtype=float): return np.full(shape, self.poison, dtype=dtype)
rs=np.random.RandomState(0)
def rand_table(d,n):
    A=rs.normal(size=(d,d)); S=A@A.T+ 0.5*np.eye(d); D=np.sqrt(np.diag(S)); S=S/np.outer(D,D)
    return pd.DataFrame(rs.multivariate_normal(np.zeros(d),S,size=n),columns=[f'c{i}' for i in range(d)])
def sig(v): return [[(int(e.L),int(e.R),tuple(sorted(map(int,e.D))),e.name.name,round(float(e.theta),9)) for e in tr.edges] for tr in v.trees]
diff=0; tot=0
for it in range(200):
    d=rs.randint(4,8); t=rs.choice(['center','direct','regular']); df=rand_table(d,60)
    out=[]
    for poison in (np.nan, 0.37, -0.91):
        T.np=NP(poison); V.np=NP(poison)
        try:
            v=VineCopula(t); v.fit(df,truncated=d); u=np.full((1,d),.4); out.append((sig(v), v.get_likelihood(u)))
        except Exception as e: out.append(('EXC',type(e).__name__))
    T.np=np; V.np=np
    tot+=1
    if not (repr(out[0])==repr(out[1])==repr(out[2])):
        diff+=1
        if diff<=5: print(t,d,'DIFF'); 
print('tot',tot,'diff',diff)
