import sys; sys.path.insert(0,'/tmp/scratch/repo')
import numpy as np, warnings, time, pandas as pd
warnings.simplefilter('ignore')
from copulas.multivariate import GaussianMultivariate
from copulas.univariate import *
rs=np.random.RandomState(0)
a=rs.normal(size=300)
df=pd.DataFrame({'a':a,'dup':a.copy(),'neg':-a,'lin':2*a+1,'c':np.full(300,2.0),'e':rs.gamma(2,size=300), 'mono':np.exp(a)})
for dist in (GaussianUnivariate, Univariate, GaussianKDE, UniformUnivariate, BetaUnivariate):
    g=GaussianMultivariate(distribution=dist, random_state=0)
    t0=time.time(); g.fit(df); t=time.time()-t0
    C=g.correlation.to_numpy()
    w=np.linalg.eigvalsh((C+C.T)/2)
    print(dist.__name__, 'fit s',round(t,2),'sym',np.abs(C-C.T).max(),'diag',np.round(np.diag(C),8),'mineig',w.min(),'range',C.min(),C.max())
    print(np.round(C,4))
    try:
        s=g.sample(5); print(' sample ok', s.isna().sum().sum(), np.isinf(s.to_numpy()).sum())
        print(' pdf', g.pdf(df.head(3)))
    except Exception as e: print(' EXC', repr(e)[:200])
