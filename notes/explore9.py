import sys; sys.path.insert(0,'/tmp/scratch/repo')
import numpy as np, warnings, traceback, pandas as pd, json, pickle, tempfile, os
warnings.simplefilter('ignore')
from copulas.univariate import *
from copulas.multivariate import GaussianMultivariate, VineCopula, Multivariate
from copulas.bivariate import Bivariate, Frank, Clayton, Gumbel
rs=np.random.RandomState(0)
x=rs.gamma(2,3,300)+5
pts=np.array([-1.,6.,9.,30.]); qs=np.array([0.01,.3,.77,.99])
print('--- C14 univariate roundtrip incl JSON')
for cls,kw in [(GaussianUnivariate,{}),(BetaUnivariate,{}),(GammaUnivariate,{}),(GaussianKDE,{}),(GaussianKDE,{'bw_method':'silverman'}),(GaussianKDE,{'bw_method':0.5}),(GaussianKDE,{'sample_size':50}),(TruncatedGaussian,{}),(TruncatedGaussian,{'minimum':0,'maximum':100}),(UniformUnivariate,{}),(StudentTUnivariate,{}),(LogLaplace,{}),(Univariate,{}),(Univariate,{'parametric':ParametricType.PARAMETRIC})]:
    for data,label in ((x,'nc'),(np.full(20,4.5),'const')):
        try:
            np.random.seed(0)
            m=cls(**kw); m.fit(data)
            d=m.to_dict()
            m2=Univariate.from_dict(d)
            m3=Univariate.from_dict(json.loads(json.dumps(d)))
            ok=[]
            for mm in (m2,m3):
                same_dict = json.dumps(mm.to_dict(),sort_keys=True,default=str)==json.dumps(d,sort_keys=True,default=str)
                same = np.array_equal(mm.cdf(pts),m.cdf(pts)) and np.array_equal(mm.pdf(pts),m.pdf(pts)) and np.array_equal(mm.ppf(qs),m.ppf(qs),equal_nan=True)
                m.set_random_state(3); mm.set_random_state(3)
                ss = np.array_equal(m.sample(5), mm.sample(5))
                ok.append((same_dict,same,ss, type(mm).__name__))
            print(cls.__name__,kw,label,ok)
        except Exception as e:
            print(cls.__name__,kw,label,'EXC',repr(e)[:150])
print('--- C14 gaussian multivariate')
df=pd.DataFrame({'a':rs.normal(size=200),'b':rs.gamma(2,size=200),'c':np.full(200,3.0)})
df['b']+=df['a']
g=GaussianMultivariate(random_state=1); g.fit(df)
d=g.to_dict()
g2=GaussianMultivariate.from_dict(d); g3=Multivariate.from_dict(json.loads(json.dumps(d)))
q=df.head(5)
for gg in (g2,g3):
    print(type(gg).__name__, np.array_equal(gg.pdf(q),g.pdf(q)), np.allclose(gg.cdf(q),g.cdf(q),atol=1e-4), json.dumps(gg.to_dict(),sort_keys=True)==json.dumps(d,sort_keys=True))
    g.set_random_state(5); gg.set_random_state(5)
    print('  sample eq', g.sample(4).equals(gg.sample(4)))
print([u['type'] for u in d['univariates']])
print('--- C13 containers')
perm=q[['c','a','b']]
print(np.array_equal(g.pdf(perm),g.pdf(q)), np.array_equal(g.pdf(q.to_numpy()),g.pdf(q)), g.pdf(q.iloc[0]), g.pdf(q)[0], g.pdf(q.to_numpy()[0]))
print('--- C15 rng isolation')
def state_eq(a,b): return a[0]==b[0] and (a[1]==b[1]).all() and a[2:]==b[2:]
np.random.seed(123); st=np.random.get_state()
g.set_random_state(7); s=g.sample(10); print('gm global untouched', state_eq(st,np.random.get_state()))
try:
    g.sample(3, conditions={'zzz':1.0})
except Exception as e: print('exc', type(e).__name__)
print('after exception untouched', state_eq(st,np.random.get_state()))
c=Clayton(random_state=3); c.theta=2.0; c.tau=.5
a1=c.sample(3); a2=c.sample(3); c.set_random_state(3); b1=c.sample(3)
print('stream advance', not np.array_equal(a1,a2), np.array_equal(a1,b1), state_eq(st,np.random.get_state()))
from copulas import datasets
for name in [n for n in dir(datasets) if n.startswith('sample_')]:
    f=getattr(datasets,name); o1=f(17,5); o2=f(17,5); o3=f(17,6)
    print(name, len(o1), o1.equals(o2), not o1.equals(o3), state_eq(st,np.random.get_state()))
print('--- vine roundtrip')
dfv=pd.DataFrame(rs.multivariate_normal(np.zeros(4),0.5*np.eye(4)+0.5,size=150),columns=list('wxyz'))
for t in ('center','direct','regular'):
    try:
        v=VineCopula(t, random_state=2); v.fit(dfv)
        d=v.to_dict(); v2=VineCopula.from_dict(d); d2=v2.to_dict()
        u=np.array([[.3,.5,.2,.7]])
        print(t, 'lik', v.get_likelihood(u), v2.get_likelihood(u))
        v.set_random_state(4); v2.set_random_state(4)
        print('  sample eq', v.sample(3).equals(v2.sample(3)))
        fd,p=tempfile.mkstemp(); os.close(fd); v.save(p); v3=VineCopula.load(p); os.unlink(p)
        print('  pickle lik', v3.get_likelihood(u))
    except Exception as e: traceback.print_exc()
