import sys; sys.path.insert(0,'/tmp/scratch/repo')
import numpy as np, warnings, time
warnings.simplefilter('ignore')
from scipy import stats
from copulas.univariate import *
rs=np.random.RandomState(21)
rows=[]
for i in range(400):
    loc=rs.uniform(-100,100); scale=10**rs.uniform(-2,3)
    a=rs.uniform(-3,-0.2); b=rs.uniform(0.2,3); d=stats.truncnorm(a,b,loc,scale)
    n=int(rs.choice([200,1000,5000]))
    x=d.rvs(n, random_state=rs)
    user=rs.rand()<.5
    m=TruncatedGaussian(minimum=d.support()[0], maximum=d.support()[1]) if user else TruncatedGaussian()
    m.fit(x)
    grid=np.quantile(x, np.linspace(0,1,401))
    ks=np.abs(m.cdf(grid)-d.cdf(grid)).max()*np.sqrt(n)
    rng=x.max()-x.min()
    capped = m._params['scale'] >= 0.999*( (m.max-m.min)**2 if user else (rng+2*1.2e-7)**2)
    rows.append((ks,capped,scale,rng,a,b,n,user))
rows=np.array(rows,dtype=float)
nc=rows[rows[:,1]==0]; c=rows[rows[:,1]==1]
print('not capped n',len(nc),'max ks',nc[:,0].max(),'q99',np.quantile(nc[:,0],.99), 'capped n',len(c),'median ks', np.median(c[:,0]) if len(c) else None)
print(nc[np.argsort(-nc[:,0])][:6])
print('small-range not capped:', nc[nc[:,3]<1][:,0].max() if (nc[:,3]<1).any() else None, (nc[:,3]<1).sum())
sm=nc[nc[:,3]<1]; print(sm[np.argsort(-sm[:,0])][:5])
big=nc[nc[:,3]>=1]; print('range>=1 not capped: n',len(big),'max',big[:,0].max())
