import sys; sys.path.insert(0,'/tmp/scratch/repo'); sys.path.insert(0,'/tmp/scratch/deps')
import numpy as np, warnings, time
warnings.simplefilter('ignore')
import mpmath as mp
from copulas.bivariate import Frank, Gumbel, Clayton
mp.mp.dps=40
def Cref(fam,th,u,v):
    th=mp.mpf(th); u=mp.mpf(u); v=mp.mpf(v)
    if u<=0 or v<=0: return mp.mpf(0)
    if fam=='clayton': 
        s=u**(-th)+v**(-th)-1
        return s**(-1/th)
    if fam=='frank':
        return -1/th*mp.log(1+mp.expm1(-th*u)*mp.expm1(-th*v)/mp.expm1(-th))
    if fam=='gumbel':
        if u>=1: return v
        if v>=1: return u
        return mp.exp(-(((-mp.log(u))**th+(-mp.log(v))**th)**(1/th)))
rs=np.random.RandomState(0)
def mk(cls,th):
    c=cls(); c.theta=th; c.tau=.5; return c
for fam,cls in (('clayton',Clayton),('frank',Frank),('gumbel',Gumbel)):
    wc=wh=wp=0; t0=time.time(); N=300; wfr=0
    for i in range(N):
        if fam=='clayton': th=float(np.exp(rs.uniform(np.log(1e-3),np.log(8))))
        elif fam=='gumbel': th=float(1+np.exp(rs.uniform(np.log(1e-3),np.log(4))))
        else: th=float(np.exp(rs.uniform(np.log(1e-3),np.log(18.2)))*rs.choice([-1,1]))
        lo,hi=1e-4,1-1e-4
        u,v=[float(x) for x in np.where(rs.rand(2)<.5, rs.uniform(lo,hi,2), np.clip(rs.choice([lo,hi],2)+rs.exponential(1e-3,2)*rs.choice([-1,1],2),lo,hi))]
        c=mk(cls,th); X=np.array([[u,v]])
        cr=Cref(fam,th,u,v)
        hr=mp.diff(lambda t: Cref(fam,th,u,t), v)
        pr=mp.diff(lambda s,t: Cref(fam,th,s,t), (u,v), (1,1))
        ec=abs(float(c.cdf(X)[0])-float(cr)); eh=abs(float(c.partial_derivative(X)[0])-float(hr)); ep=abs(float(c.pdf(X)[0])-float(pr))/(1+float(pr))
        tolF=64*2.2e-16*(1+1/abs(th))+1e-12
        wc=max(wc,ec); wh=max(wh,eh); wp=max(wp,ep)
        if fam=='frank': wfr=max(wfr, ec/tolF)
    print(fam,'cdf',wc,'h',wh,'pdf rel',wp,'ms/pt',(time.time()-t0)/N*1e3, 'frank ratio',wfr)
# boundary points for cdf
for fam,cls in (('clayton',Clayton),('frank',Frank),('gumbel',Gumbel)):
    w=0
    for i in range(2000):
        if fam=='clayton': th=float(np.exp(rs.uniform(np.log(1e-3),np.log(8))))
        elif fam=='gumbel': th=float(1+np.exp(rs.uniform(np.log(1e-3),np.log(4))))
        else: th=float(np.exp(rs.uniform(np.log(1e-3),np.log(18.2)))*rs.choice([-1,1]))
        def pt():
            k=rs.randint(5)
            if k==0: return float(rs.uniform())
            if k==1: return float(10**rs.uniform(-12,-1))
            if k==2: return float(1-10**rs.uniform(-12,-1))
            if k==3: return float(rs.choice([0.,1.]))
            return 1e-300
        u,v=pt(),pt()
        c=mk(cls,th)
        val=float(c.cdf(np.array([[u,v]]))[0]); ref=float(Cref(fam,th,u,v))
        tolF=(64*2.2e-16*(1+1/abs(th))+1e-12) if fam=='frank' else 1e-12
        r=abs(val-ref)/tolF
        if not np.isfinite(val): r=np.inf
        if r>w: w=r; arg=(th,u,v,val,ref)
    print(fam,'boundary worst ratio',w,arg)
