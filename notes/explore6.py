import numpy as np, time
from scipy import stats
rs=np.random.RandomState(0)
for d in (2,3,4,6):
    A=rs.normal(size=(d,d)); S=A@A.T; D=np.sqrt(np.diag(S)); S=S/np.outer(D,D)
    x=rs.normal(size=(50,d))
    t=time.time(); a=stats.multivariate_normal.cdf(x,cov=S); t1=time.time()-t
    b=stats.multivariate_normal.cdf(x,cov=S)
    print(d, 'time',t1, 'repeat diff', np.abs(a-b).max(), a[:3])
