import sys; sys.path.insert(0,'/tmp/scratch/repo')
import numpy as np, warnings
warnings.simplefilter('ignore')
from copulas.optimize import bisect, chandrupatla
rs=np.random.RandomState(3)
for kind in ('cubic','quintic','lin','tanh','exp', 'sqrtlike'):
  W=0; Wb=0
  for rep in range(200):
    n=1000
    lo=rs.uniform(-10,10,n)*10**rs.uniform(-2,2,n); w=10**rs.uniform(-3,3,n); hi=lo+w
    frac=np.where(rs.rand(n)<.15, rs.choice([0.,1.],n), rs.uniform(0,1,n)); r=lo+frac*w
    s=10**rs.uniform(-6,6,n)
    if kind=='cubic': F=lambda x: s*(x-r)**3
    elif kind=='quintic': F=lambda x: s*(x-r)**5
    elif kind=='lin': F=lambda x: s*(x-r)
    elif kind=='tanh': F=lambda x: np.tanh(s*(x-r))
    elif kind=='exp': F=lambda x: np.expm1(np.clip(s*(x-r),-700,50))
    else: F=lambda x: np.sign(x-r)*np.abs(s*(x-r))**0.2
    x=chandrupatla(F,lo.copy(),hi.copy()); fx=F(x)
    e=np.where(fx==0,0,np.abs(x-r)/w); W=max(W,e.max())
    assert not np.isnan(x).any() and ((x>=lo)&(x<=hi)).all()
    xb=bisect(F,lo.copy(),hi.copy()); fb=F(xb)
    eb=np.where(fb==0,0,np.abs(xb-r)); Wb=max(Wb,eb.max())
  print(kind,'chand rel',W,'bisect abs',Wb)
