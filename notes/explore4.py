import sys; sys.path.insert(0,'/tmp/scratch/repo')
import numpy as np, warnings
warnings.simplefilter('ignore')
from copulas.optimize import bisect, chandrupatla
rs=np.random.RandomState(2)
def fam(kind, r, s):
    if kind==0: return lambda x: s*(x-r)
    if kind==1: return lambda x: s*(x-r)**3
    if kind==2: return lambda x: np.tanh(s*(x-r))
    if kind==3: return lambda x: np.expm1(np.clip(s*(x-r),-700,50))
    if kind==4: return lambda x: s*np.arctan(x-r)
worst={}
nanc=0; outc=0; cnt=0
for trial in range(3000):
    n=rs.choice([1,2,5,50,300])
    kinds=rs.randint(0,5,n); 
    lo=rs.uniform(-10,10,n)*10**rs.uniform(-2,2,n); w=10**rs.uniform(-3,3,n); hi=lo+w
    frac=np.where(rs.rand(n)<.15, rs.choice([0.,1.],n), rs.uniform(0,1,n))
    r=lo+frac*w
    s=10**rs.uniform(-6,6,n)
    fs=[fam(k,ri,si) for k,ri,si in zip(kinds,r,s)]
    def F(x, fs=fs):
        x=np.asarray(x,float)
        return np.array([f(xi) for f,xi in zip(fs,x)])
    for name,solver in (('ch',chandrupatla),('bi',bisect)):
        try:
            x=solver(F, lo.copy(), hi.copy())
        except AssertionError as e:
            worst.setdefault(name+'_assert',0); worst[name+'_assert']+=1; continue
        cnt+=1
        if np.isnan(x).any(): nanc+=1; print(name,'NaN', n); continue
        if ((x<lo)|(x>hi)).any(): outc+=1
        err=np.abs(x-r)
        # flat-root cubic: any x with f(x)==0 acceptable
        fx=F(x)
        relerr=np.where(fx==0,0,err/w)
        key=name
        i=np.argmax(relerr if name=='ch' else np.where(fx==0,0,err))
        val=(relerr[i] if name=='ch' else np.where(fx==0,0,err)[i])
        if val>worst.get(key,(0,))[0]:
            worst[key]=(val, int(kinds[i]), float(w[i]), float(s[i]), float(frac[i]), int(n))
        # lane independence
        j=rs.randint(n)
        xa=solver(lambda z: np.array([fs[j](z[0])]), lo[j:j+1].copy(), hi[j:j+1].copy())
        d=abs(xa[0]-x[j])
        k2=name+'_lane'
        if d>worst.get(k2,(0,))[0]: worst[k2]=(d, int(kinds[j]), float(w[j]), float(s[j]), int(n))
print(worst, 'nan',nanc,'out',outc,'cnt',cnt)
