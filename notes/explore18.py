import sys; sys.path.insert(0,'/tmp/scratch/repo')
import numpy as np, warnings, time, pandas as pd
warnings.simplefilter('ignore')
from scipy import stats
from copulas.multivariate import GaussianMultivariate
from copulas.univariate import *
from copulas.utils import EPSILON
rs=np.random.RandomState(3)
def dkw(n,a=1e-13): return np.sqrt(np.log(2/a)/(2*n))
def ks_norm(x):
    x=np.sort(x); n=len(x); F=stats.norm.cdf(x)
    return max((np.arange(1,n+1)/n-F).max(), (F-np.arange(n)/n).max())
worst=0; t0=time.time()
for it in range(25):
    d=rs.randint(2,6); A=rs.normal(size=(d,d)); S=A@A.T+0.3*np.eye(d); D=np.sqrt(np.diag(S)); S=S/np.outer(D,D)
    z=rs.multivariate_normal(np.zeros(d),S,size=500)
    cols=[f'c{i}' for i in range(d)]
    X=pd.DataFrame({c: (stats.gamma.ppf(stats.norm.cdf(z[:,i]),2+i) if i%2 else z[:,i]*3+1) for i,c in enumerate(cols)})
    dist=rs.choice([0,1,2])
    g=GaussianMultivariate(distribution=[GaussianUnivariate,GaussianKDE,Univariate][dist], random_state=int(rs.randint(1e6))); g.fit(X)
    k=rs.randint(1,d); cond_cols=list(rs.permutation(cols)[:k])
    cond={c: float(X[c].quantile(rs.uniform(0,1))+rs.choice([0,0,5])*X[c].std()) for c in cond_cols}
    n=5000
    s=g.sample(n, conditions=cond if rs.rand()<.5 else pd.Series(cond))
    assert list(s.columns)==cols and all((s[c]==cond[c]).all() for c in cond)
    C=g.correlation
    free=[c for c in cols if c not in cond]
    uni=dict(zip(g.columns,g.univariates))
    zc=np.array([stats.norm.ppf(np.clip(uni[c].cdf(np.array([cond[c]])),EPSILON,1-EPSILON))[0] for c in cond_cols])
    S11=C.loc[free,free].to_numpy(); S12=C.loc[free,cond_cols].to_numpy(); S22=C.loc[cond_cols,cond_cols].to_numpy()
    mu=S12@np.linalg.solve(S22,zc); Sb=S11-S12@np.linalg.solve(S22,S12.T)
    zs=np.column_stack([stats.norm.ppf(np.clip(uni[c].cdf(s[c].to_numpy()),EPSILON,1-EPSILON)) for c in free])
    L=np.linalg.cholesky(Sb); w=np.linalg.solve(L,(zs-mu).T).T
    ksv=max(ks_norm(w[:,j]) for j in range(w.shape[1])); mv=np.abs(w.mean(0)).max()*np.sqrt(n)
    worst=max(worst, ksv/dkw(n))
    print(d,k,['G','KDE','U'][dist], 'KS',round(ksv,4),'band',round(dkw(n),4),'mean*sqrt n',round(mv,2), 'zc',np.round(zc,2))
print('worst ratio',worst, round(time.time()-t0,1))
