import sys; sys.path.insert(0,'/tmp/scratch/repo')
import numpy as np, warnings, traceback
warnings.simplefilter('ignore')
from copulas.bivariate import Frank, Gumbel, Clayton
rs=np.random.RandomState(1)
def mk(cls,th):
    c=cls(); c.theta=th; c.tau=0.5; return c
def thetas(cls,n):
    if cls is Clayton: return np.exp(rs.uniform(np.log(1e-3),np.log(8),n))
    if cls is Gumbel: return 1+np.exp(rs.uniform(np.log(1e-3),np.log(4),n))
    return np.exp(rs.uniform(np.log(1e-3),np.log(18.2),n))*rs.choice([-1,1],n)
N=3000
for cls in (Clayton,Frank,Gumbel):
    worst_pp=0; worst_h=0; worst_pdf=0; worst_sym=0; worst_margin=0; bad=0; wgen=0; neg=0
    for th in thetas(cls,60):
        c=mk(cls,th)
        lo,hi=1e-4,1-1e-4
        # mix of uniform and edge-biased points
        u=np.where(rs.rand(N)<.5, rs.uniform(lo,hi,N), np.clip(rs.choice([lo,hi],N)+rs.exponential(1e-3,N)*rs.choice([-1,1],N),lo,hi))
        v=np.where(rs.rand(N)<.5, rs.uniform(lo,hi,N), np.clip(rs.choice([lo,hi],N)+rs.exponential(1e-3,N)*rs.choice([-1,1],N),lo,hi))
        X=np.column_stack([u,v])
        # h = dC/dv via central differences with Richardson
        def C(a,b): return c.cdf(np.column_stack([a,b]))
        d=np.minimum(1e-5, np.minimum(v,1-v)/4)
        fd1=(C(u,v+d)-C(u,v-d))/(2*d); fd2=(C(u,v+d/2)-C(u,v-d/2))/(d)
        fd=(4*fd2-fd1)/3
        h=c.partial_derivative(X)
        e=np.abs(h-fd); worst_h=max(worst_h,e.max())
        if (h<-1e-12).any() or (h>1+1e-12).any(): bad+=1
        # pdf = dh/du
        def H(a,b): return c.partial_derivative(np.column_stack([a,b]))
        du=np.minimum(1e-5, np.minimum(u,1-u)/4)
        p1=(H(u+du,v)-H(u-du,v))/(2*du); p2=(H(u+du/2,v)-H(u-du/2,v))/du
        pfd=(4*p2-p1)/3
        p=c.pdf(X)
        rel=np.abs(p-pfd)/(1+np.abs(p)); worst_pdf=max(worst_pdf,rel.max())
        neg+= (p<0).sum()
        worst_sym=max(worst_sym, (np.abs(p-c.pdf(X[:,::-1]))/(1+p)).max())
        # ppf round trip
        y=rs.uniform(lo,hi,200); vv=v[:200]
        try:
            uu=c.percent_point(y,vv)
            r=np.abs(c.partial_derivative(np.column_stack([uu,vv]))-y); worst_pp=max(worst_pp,r.max())
        except Exception as ex:
            print(cls.__name__, th, 'ppf EXC', repr(ex)[:100])
        # margins
        worst_margin=max(worst_margin, np.abs(C(u,np.ones(N))-u).max(), np.abs(C(np.ones(N),v)-v).max())
        g=c.generator
        wgen=max(wgen, np.nanmax(np.abs(g(C(u,v))-(g(u)+g(v)))/(1+np.abs(g(u)+g(v)))))
    print(cls.__name__, 'h_fd',worst_h,'pdf_rel',worst_pdf,'pp',worst_pp,'sym',worst_sym,'margin',worst_margin,'gen_rel',wgen,'h_out',bad,'negpdf',neg)
