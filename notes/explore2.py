import sys; sys.path.insert(0,'/tmp/scratch/repo')
import numpy as np, warnings, traceback, pandas as pd
warnings.simplefilter('ignore')
from copulas.univariate import *
from copulas.multivariate import GaussianMultivariate
from copulas.bivariate import Gumbel
from copulas.optimize import bisect, chandrupatla
rs=np.random.RandomState(0)
x=rs.normal(5,2,300)
print('--- G: refit after constant')
for cls in (GaussianUnivariate, BetaUnivariate, GammaUnivariate, GaussianKDE, TruncatedGaussian, UniformUnivariate, StudentTUnivariate, LogLaplace, Univariate):
    try:
        m=cls(); m.fit(np.full(10,3.0)); m.fit(x)
        f=cls(); f.fit(x)
        pts=np.array([1.,5.,9.])
        print(cls.__name__, np.allclose(m.cdf(pts), f.cdf(pts)), m.cdf(pts), f.cdf(pts))
    except Exception as e:
        print(cls.__name__, 'EXC', repr(e))
print('--- K: truncated gaussian remembers bounds')
m=TruncatedGaussian(); m.fit(rs.uniform(0,1,200)); a=(m.min,m.max); m.fit(rs.uniform(10,20,200)); print(a,(m.min,m.max), m.to_dict())
print('--- L: KDE cached size')
m=GaussianKDE(); m.fit(rs.normal(size=50)); print(m._sample_size); m.fit(rs.normal(size=200)); print(m._sample_size, len(m._params['dataset']))
print('--- E/F: conditions')
df=pd.DataFrame(rs.multivariate_normal([0,0,0],[[1,.8,.3],[.8,1,.2],[.3,.2,1]],size=1000),columns=list('abc'))
g=GaussianMultivariate(distribution=GaussianUnivariate, random_state=0); g.fit(df)
try:
    print(g.sample(3, conditions=pd.Series({'a':1.0})))
except Exception as e: print('Series cond EXC', repr(e))
s1=g.sample(20000, conditions={'a':2.0,'c':-1.0})
s2=g.sample(20000, conditions={'c':-1.0,'a':2.0})
print('mean b  order a,c:', s1['b'].mean(), ' order c,a:', s2['b'].mean())
S=g.correlation.to_numpy(); 
z=np.array([2.0,-1.0]); # approx normal scores since N(0,1) marginals approx
idx1=[1]; idx2=[0,2]
mu=S[np.ix_(idx1,idx2)]@np.linalg.inv(S[np.ix_(idx2,idx2)])@z
print('expected approx', mu)
print('--- H: bisect mutates')
lo=np.zeros(3); hi=np.ones(3)*4
r=bisect(lambda x: x-np.array([1.,2.,3.]), lo, hi); print(r, lo, hi)
lo=np.zeros(3); hi=np.ones(3)*4
r=chandrupatla(lambda x: x-np.array([1.,2.,3.]), lo, hi); print(r, lo, hi)
print('--- Gumbel theta=1')
c=Gumbel(); c.theta=1.0; c.tau=0.0
X=np.array([[0.3,0.8],[0.6,0.1]])
print(c.cdf(X), c.pdf(X), c.partial_derivative(X), c.percent_point(np.array([.3,.6]),np.array([.8,.1])))
print('--- J: Univariate seeds')
u1=Univariate(random_state=5); u1.fit(x); u2=Univariate(random_state=5); u2.fit(x)
st=np.random.get_state()[1][:3].copy()
print(u1.sample(3), u2.sample(3), (np.random.get_state()[1][:3]==st).all())
