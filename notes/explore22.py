import sys; sys.path.insert(0,'/tmp/scratch/repo')
import numpy as np, warnings, collections
warnings.simplefilter('ignore')
from scipy.stats import kendalltau
from copulas.bivariate import select_copula, Frank, Clayton, Gumbel
rs=np.random.RandomState(5)
exc=collections.Counter(); types=collections.Counter(); bad=0
for it in range(1500):
    n=int(rs.choice([2,3,5,10,50,300]))
    k=rs.randint(5)
    if k==0: X=rs.uniform(size=(n,2))
    elif k==1: u=rs.uniform(size=n); X=np.column_stack([u,np.clip(u+rs.normal(0,.1,n),0,1)])
    elif k==2: u=rs.uniform(size=n); X=np.column_stack([u,1-u])
    elif k==3: X=np.round(rs.uniform(size=(n,2)),1)
    else: u=rs.uniform(size=n); X=np.column_stack([u,u**2])
    try:
        c=select_copula(X)
    except Exception as e:
        exc[(type(e).__name__,str(e)[:40],k)]+=1; continue
    types[type(c).__name__]+=1
    tau=kendalltau(X[:,0],X[:,1])[0]
    if not (c.tau==tau): bad+=1; print('tau mismatch',c.tau,tau)
    if tau<=0 and type(c) is not Frank: bad+=1; print('nonpos tau not frank')
    if type(c) is Clayton and not np.isclose(c.theta,2*tau/(1-tau)) and tau!=1: bad+=1; print('clayton theta')
    if type(c) is Gumbel and not np.isclose(c.theta,1/(1-tau)): bad+=1; print('gumbel theta')
print(types, bad); 
for k,v in exc.items(): print(k,v)
