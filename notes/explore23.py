import sys; sys.path.insert(0,'/tmp/scratch/repo')
import numpy as np, warnings, time
warnings.simplefilter('ignore')
from scipy.stats import kendalltau
from copulas.bivariate import Frank, Clayton, Gumbel
def band_tau(n,a=1e-13): return np.sqrt(2*np.log(2/a)/(n//2))
def dkw(n,a=1e-13): return np.sqrt(np.log(2/a)/(2*n))
def ks_u(x):
    x=np.sort(x); n=len(x); return max((np.arange(1,n+1)/n-x).max(), (x-np.arange(n)/n).max())
n=4000
for cls,taus in ((Clayton,[.05,.4,.8]),(Gumbel,[.05,.4,.8]),(Frank,[-.8,-.3,.05,.5,.8])):
    for tau in taus:
        c=cls(random_state=1); c.tau=tau; c.theta=c.compute_theta()
        t0=time.time(); s=c.sample(n); dt=time.time()-t0
        tn=kendalltau(s[:,0],s[:,1])[0]
        g=np.linspace(.1,.9,9); G=np.array([(a,b) for a in g for b in g])
        emp=np.array([((s[:,0]<=a)&(s[:,1]<=b)).mean() for a,b in G]); th=c.cdf(G)
        h=c.partial_derivative(s)  # dC/dv at (u,v): Rosenblatt w = F(u|v)
        empR=np.array([((s[:,1]<=a)&(h<=b)).mean() for a,b in G])
        print(cls.__name__,tau,'t',round(dt,2),'|tau err|',round(abs(tn-tau),4),'band',round(band_tau(n),3),'ks',round(ks_u(s[:,0]),4),round(ks_u(s[:,1]),4),'dkw',round(dkw(n),4),'joint',round(np.abs(emp-th).max(),4),'rosen',round(np.abs(empR-G[:,0]*G[:,1]).max(),4),'gridband',round(np.sqrt(np.log(2*81/1e-13)/(2*n)),4))
