import sys; sys.path.insert(0,'/tmp/scratch/repo')
import numpy as np, warnings, time
warnings.simplefilter('ignore')
from scipy import stats
from copulas.univariate import *
rs=np.random.RandomState(5)
def gen(fam):
    loc=rs.uniform(-100,100); scale=10**rs.uniform(-2,3)
    if fam=='gaussian': return stats.norm(loc,scale), GaussianUnivariate
    if fam=='uniform': return stats.uniform(loc,scale), UniformUnivariate
    if fam=='beta': return stats.beta(10**rs.uniform(-.3,1),10**rs.uniform(-.3,1),loc,scale), BetaUnivariate
    if fam=='gamma': return stats.gamma(10**rs.uniform(-.3,1.3),loc,scale), GammaUnivariate
    if fam=='t': return stats.t(10**rs.uniform(.3,1.5),loc,scale), StudentTUnivariate
    if fam=='loglaplace': return stats.loglaplace(10**rs.uniform(.3,1.2),loc,scale), LogLaplace
    if fam=='truncnorm':
        a=rs.uniform(-3,0); b=a+rs.uniform(1,5); return stats.truncnorm(a,b,loc,scale), TruncatedGaussian
for fam in ('gaussian','uniform','beta','gamma','t','loglaplace','truncnorm'):
    vals=[]; t0=time.time(); fails=0
    for i in range(60):
        d,cls=gen(fam); n=int(rs.choice([200,1000,5000]))
        x=d.rvs(n, random_state=rs)
        m=cls()
        try: m.fit(x)
        except Exception as e: fails+=1; continue
        grid=np.quantile(x, np.linspace(0,1,201))
        ks=np.abs(m.cdf(grid)-d.cdf(grid)).max()*np.sqrt(n)
        vals.append(ks)
    vals=np.array(vals)
    print(fam, 'fails',fails,'time/fit',(time.time()-t0)/60, 'sqrt(n)*KS quantiles', np.round(np.quantile(vals,[.5,.8,.9,.95,1]),3))
