#!/venv/bin/python
"""Run the registered checks against every independently seeded change in seeded/<name>/ (patch applied to a
scratch copy of /repo/copulas under /tmp, VERIF_REPO) and print a table.  Usage: tools/seeded.py [name-prefix]"""
import json
import os
import subprocess
import sys

HERE = os.path.dirname(os.path.dirname(os.path.abspath(__file__)))


def main():
    prefix = sys.argv[1] if len(sys.argv) > 1 else ''
    rows = []
    for name in sorted(os.listdir(os.path.join(HERE, 'seeded'))):
        if not name.startswith(prefix):
            continue
        d = os.path.join(HERE, 'seeded', name)
        meta = json.load(open(os.path.join(d, 'meta.json')))
        props = meta.get('detected_by_quick_checks') or [meta['breaks_property']]
        target = meta['breaks_property']
        env = dict(os.environ)
        if not meta.get('detected_by_quick_checks') and meta.get('detected_by_thorough_checks'):
            env['MUTANT_TIER'] = 'thorough'          # changes that only the deep tier can resolve
            if name.startswith('C17-sampling'):
                env['MUTANT_ONLY'] = 'sampling_large'
        p = subprocess.run([sys.executable, os.path.join(HERE, 'tools', 'mutants.py'), '--patch', os.path.join(d, 'patch.diff'), target],
                           stdout=subprocess.PIPE, stderr=subprocess.STDOUT, text=True, env=env)
        first = [ln for ln in p.stdout.splitlines() if 'exit=' in ln]
        verdict = first[0].split()[-1] if first else 'ERROR'
        why = [ln.strip() for ln in p.stdout.splitlines() if ln.strip().startswith('sub-property')]
        rows.append((name, target, verdict, why[0][:160] if why else ''))
        print('%-52s %-4s %-9s %s' % rows[-1])
        sys.stdout.flush()
    print('detected %d / %d' % (sum(1 for r in rows if r[2] == 'KILLED'), len(rows)))


if __name__ == '__main__':
    main()
