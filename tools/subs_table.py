#!/venv/bin/python
"""Print the table of sub-properties and budgets (quick / thorough case counts) of every check module."""
import importlib, os, sys
HERE = os.path.dirname(os.path.dirname(os.path.abspath(__file__)))
sys.path.insert(0, HERE)
from vlib import harness
harness.setup_paths()
print('| property | sub-property | quick | thorough | notes |')
print('|---|---|---|---|---|')
for i in range(1, 21):
    mod = importlib.import_module('checks.c%02d' % i)
    for s in mod.SUBS:
        if s.enumerate_cases is not None:
            q, t = len(s.enumerate_cases('quick', 1)), len(s.enumerate_cases('thorough', 1))
            note = 'enumerated cells'
        else:
            q, t, note = s.quick, s.thorough, ('target() guided' if s.use_target else '') + ('' if s.shrink else ' no shrinking (expensive cases)')
        print('| %s | %s | %s | %s | %s |' % (mod.PROPERTY_ID, s.name, q, t, note.strip()))
