#!/venv/bin/python
"""Validate evidence/*.json and MANIFEST.json against the schemas in /root/.vp (if present)."""
import json, os, sys
HERE = os.path.dirname(os.path.dirname(os.path.abspath(__file__)))
sys.path.append(os.path.join(HERE, '.deps'))
import jsonschema
ok = True
def load(p):
    with open(p) as f:
        return json.load(f)
ev_schema = load('/root/.vp/EVIDENCE.schema.json')
for fn in sorted(os.listdir(os.path.join(HERE, 'evidence'))):
    if fn.endswith('.json'):
        try:
            jsonschema.validate(load(os.path.join(HERE, 'evidence', fn)), ev_schema)
            print('ok  evidence/' + fn)
        except jsonschema.ValidationError as e:
            ok = False
            print('BAD evidence/%s: %s' % (fn, e.message[:300]))
mp = os.path.join(HERE, 'MANIFEST.json')
if os.path.exists(mp):
    try:
        jsonschema.validate(load(mp), load('/root/.vp/MANIFEST.schema.json'))
        print('ok  MANIFEST.json')
    except jsonschema.ValidationError as e:
        ok = False
        print('BAD MANIFEST.json: %s' % e.message[:300])
sys.exit(0 if ok else 1)
