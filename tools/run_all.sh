#!/bin/sh
# Run every registered check (tier $1, default quick) sequentially and validate the evidence files.
TIER=${1:-quick}
cd "$(dirname "$0")/.."
./setup.sh >/dev/null || exit 2
rc=0
for i in 01 02 03 04 05 06 07 08 09 10 11 12 13 14 15 16 17 18 19 20; do
  /venv/bin/python run_check.py C$i --tier "$TIER" > out/run_all_C$i.log 2>&1; code=$?
  tail -1 out/run_all_C$i.log
  [ $code -ne 0 ] && { rc=1; grep -A2 "^VIOLATION\|^HARNESS" out/run_all_C$i.log | head -8; }
done
/venv/bin/python tools/validate_evidence.py | grep -v "^ok" ; exit $rc
