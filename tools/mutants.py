#!/venv/bin/python
"""Sensitivity campaign: apply a small source mutant to a scratch copy of /repo/copulas (outside
/repo and /verif), run a check against it with VERIF_REPO, expect exit 1, delete the copy.

    tools/mutants.py                 run every mutant in tools/mutants.json
    tools/mutants.py C18             only mutants listed for C18
    tools/mutants.py C18:any-term    one mutant
    tools/mutants.py --patch seeded/x/patch.diff C12 [C13 ...]   apply a diff instead

Each mutant: {"id", "props": [...], "file", "old", "new", "note"} - `old` must occur exactly once.
Results are appended to notes/mutants.md by hand; this tool only prints a table.
"""
import json
import os
import shutil
import subprocess
import sys
import tempfile
import time

HERE = os.path.dirname(os.path.dirname(os.path.abspath(__file__)))
REPO = '/repo'


def make_copy():
    d = tempfile.mkdtemp(prefix='vmut-', dir='/tmp')
    shutil.copytree(os.path.join(REPO, 'copulas'), os.path.join(d, 'copulas'),
                    ignore=shutil.ignore_patterns('__pycache__', '*.pyc'))
    return d


def run_check(prop, repo_dir, seed, extra=()):
    env = dict(os.environ)
    env['VERIF_REPO'] = repo_dir
    env['VERIF_SEED'] = str(seed)
    t0 = time.time()
    tier = os.environ.get('MUTANT_TIER', 'quick')
    if os.environ.get('MUTANT_ONLY'):
        extra = list(extra) + ['--only', os.environ['MUTANT_ONLY']]
    p = subprocess.run([sys.executable, os.path.join(HERE, 'run_check.py'), prop, '--tier', tier] + list(extra),
                       env=env, stdout=subprocess.PIPE, stderr=subprocess.STDOUT, text=True)
    lines = [ln for ln in p.stdout.splitlines() if ln.startswith(('VIOLATION', '  sub-property', 'HARNESS'))]
    return p.returncode, time.time() - t0, lines


def main():
    args = sys.argv[1:]
    seed = int(os.environ.get('VERIF_SEED', '1'))
    if args and args[0] == '--patch':
        patch = os.path.abspath(args[1])
        props = args[2:]
        d = make_copy()
        try:
            r = subprocess.run(['patch', '-p1', '-d', d, '-i', patch], stdout=subprocess.PIPE,
                               stderr=subprocess.STDOUT, text=True)
            if r.returncode != 0:
                print('patch failed:\n' + r.stdout)
                return 2
            for prop in props:
                code, wall, lines = run_check(prop, d, seed)
                print('%-28s %-4s exit=%d %.0fs %s' % (os.path.basename(os.path.dirname(patch)), prop, code, wall,
                                                       'KILLED' if code == 1 else 'SURVIVED' if code == 0 else 'ERROR'))
                for ln in lines[:6]:
                    print('      ' + ln[:300])
        finally:
            shutil.rmtree(d, ignore_errors=True)
        return 0

    with open(os.path.join(HERE, 'tools', 'mutants.json')) as f:
        mutants = json.load(f)
    sel_prop, sel_id = None, None
    if args:
        sel_prop, _, sel_id = args[0].partition(':')
    summary = []
    for m in mutants:
        for prop in m['props']:
            if sel_prop and prop != sel_prop:
                continue
            if sel_id and m['id'] != sel_id:
                continue
            d = make_copy()
            try:
                path = os.path.join(d, m['file'])
                src = open(path).read()
                if src.count(m['old']) != 1:
                    print('%-28s %-4s SKIP: pattern occurs %d times' % (m['id'], prop, src.count(m['old'])))
                    summary.append((m['id'], prop, 'SKIP'))
                    continue
                open(path, 'w').write(src.replace(m['old'], m['new']))
                code, wall, lines = run_check(prop, d, seed)
                verdict = 'KILLED' if code == 1 else 'SURVIVED' if code == 0 else 'ERROR'
                print('%-28s %-4s exit=%d %.0fs %s' % (m['id'], prop, code, wall, verdict))
                for ln in lines[:4]:
                    print('      ' + ln[:260])
                summary.append((m['id'], prop, verdict))
            finally:
                shutil.rmtree(d, ignore_errors=True)
    killed = sum(1 for s in summary if s[2] == 'KILLED')
    print('killed %d / %d' % (killed, len(summary)))
    return 0


if __name__ == '__main__':
    sys.exit(main())
