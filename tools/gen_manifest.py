#!/venv/bin/python
"""Regenerate MANIFEST.json from the table below (claimed checks = modules present in checks/)."""
import json
import os

HERE = os.path.dirname(os.path.dirname(os.path.abspath(__file__)))

# id -> (technique, level text, level note, design ref)
CHECKS = {
    'C18': (
        'property-based testing (Hypothesis): generated monotone function batches with known roots; '
        'reference-root oracle, lane-independence metamorphic relation, invalid-bracket error contract',
        'Generated-input search over batches of 1..1000 lanes from 7 monotone function kinds, slopes over 12 '
        'decades, roots at bracket ends, mixed per-lane difficulty; every lane is compared with its known root '
        '(containment, tolerance), lane-alone vs in-batch, scalar vs vector, invalid brackets must raise, and both '
        'solvers are driven through GaussianKDE.percent_point. Exploration, not proof: thousands (quick) to '
        '~1.5e5 (thorough) batches per run; all 8 seeded solver mutants are killed in the quick tier.',
        'Trusted: numpy elementwise arithmetic of the generated functions; the sign of f is exact around the root. '
        'Tolerance for chandrupatla includes 8 ulp of the bracket end (floating resolution).',
        'DESIGN.md 4/C18'),
    'C06': (
        'property-based testing (Hypothesis): generated (family, theta, point batch) against a 50-digit mpmath '
        'reference CDF plus copula-axiom, generator-identity, theta-order and row-independence invariants',
        'Generated-input search over the three families, theta across the whole |tau|<=0.8 range (incl. Gumbel theta=1, '
        'Frank near 0 and at +-18.2) and point batches that mix interior, boundary-hugging (1e-12), exact-boundary and '
        'denormal coordinates. Decided by an independent high-precision reference and by the copula axioms '
        '(groundedness exact, margins, Frechet bounds, symmetry, 2-increasing on generated rectangles), the Archimedean '
        'generator identity, ordering in theta and row independence. Exploration: ~6e3 (quick) / ~2e5 (thorough) batches.',
        'Trusted: mpmath closed forms of Nelsen table 4.1. Tolerances: 1e-12 (Clayton, Gumbel), '
        '1e-12+32 eps (1+e^|theta|)/|theta| (Frank, documented cancellation).',
        'DESIGN.md 4/C06'),
}


def main():
    present = sorted(fn[:-3].upper() for fn in os.listdir(os.path.join(HERE, 'checks'))
                     if fn.startswith('c') and fn.endswith('.py') and fn[1:-3].isdigit())
    props = [json.loads(line)['id'] for line in open(os.path.join(HERE, 'properties.jsonl')) if line.strip()]
    checks = []
    not_applicable = []
    for pid in props:
        if pid in present and pid in CHECKS:
            tech, text, note, ref = CHECKS[pid]
            checks.append({
                'property_id': pid,
                'quick_cmd': '/venv/bin/python run_check.py %s --tier quick' % pid,
                'thorough_cmd': '/venv/bin/python run_check.py %s --tier thorough' % pid,
                'evidence_file': 'evidence/%s.json' % pid,
                'replay_cmd_template': '/venv/bin/python run_check.py %s --replay {path}' % pid,
                'engine': 'hypothesis-pbt',
                'level_claimed': {'category': 'exploration', 'text': text, 'design_ref': ref},
                'level_note': note,
                'technique': tech,
            })
        else:
            not_applicable.append({
                'property_id': pid,
                'reason': 'check not built yet in this revision (planned, see DESIGN.md section 4); '
                          'property-based testing applies to it',
            })
    manifest = {
        'version': 1,
        'setup_cmd': './setup.sh',
        'hooks': {
            'guard': 'SDV_DEV_COPULAS_VERIF',
            'enable': 'no source hooks: the harness imports /repo (VERIF_REPO) directly in a fresh interpreter; '
                      'the only instrumentation (np.empty poisoning for C17/C19) is injected from the harness process',
            'baseline_off_cmd': 'cd /repo && /venv/bin/python -m pytest -q -p no:cacheprovider --timeout=900 '
                                '--continue-on-collection-errors',
            'source_commits': [],
            'add_only': True,
        },
        'engines': [{
            'name': 'hypothesis-pbt',
            'path': 'run_check.py',
            'serves_properties': [c['property_id'] for c in checks],
            'kind_free_text': 'Hypothesis 6.168 generated-input search (16 seeded shards in fresh interpreters) against '
                              'explicit oracles in checks/cNN.py; replay files are plain JSON cases',
        }],
        'checks': checks,
        'notes': 'Every check: exit 0 held / exit 1 with VIOLATION line / exit 2 harness error. VERIF_SEED and VERIF_TIER '
                 'are honoured; VERIF_REPO overrides the tree under test (mutation campaign only). known_findings.json '
                 'lists open and fixed findings.',
        'not_applicable': not_applicable,
    }
    with open(os.path.join(HERE, 'MANIFEST.json'), 'w') as f:
        json.dump(manifest, f, indent=1)
    print('MANIFEST.json: %d checks, %d not claimed' % (len(checks), len(not_applicable)))


if __name__ == '__main__':
    main()
