#!/venv/bin/python
"""Regenerate MANIFEST.json from the table below (claimed checks = modules present in checks/)."""
import json
import os

HERE = os.path.dirname(os.path.dirname(os.path.abspath(__file__)))

# id -> (technique, level text, level note, design ref)
PBT = 'property-based testing (Hypothesis generated-input search, seeded, sharded, shrunk to a JSON replay); oracle: '
CHECKS = {
    'C01': (PBT + 'exact schema checks + distribution-free DKW / Hoeffding bands against the fitted marginals and the fitted correlation, recovery bands against the generating law',
            'Generated Gaussian-copula tables (2..6 columns, 9 marginal kinds, 4 correlation structures, constant columns) x every marginal configuration x n x seed; exact clauses (row count, column order, no NaN, constant column) are decided exactly, distributional clauses up to finite-sample bands with per-assertion false-alarm 1e-13.',
            'Statistical clauses are sound but weak (bands ~0.03-0.06 in CDF distance); sharp content is covered by C02/C03/C04/C13.'),
    'C02': (PBT + 'independently recomputed Pearson correlation of normal scores + matrix validity invariants',
            'Generated tables incl. duplicated / negated / affine / constant columns and every marginal configuration; the fitted matrix is compared entry-wise with an independent recomputation and checked for symmetry, range, diagonal, PSD, labels, ridge only when singular, and that sampling/density still work.',
            'Trusted: numpy corrcoef / eigvalsh, scipy norm.ppf.'),
    'C03': (PBT + 'distribution-function laws (monotonicity, range, limits, integral of pdf = CDF increment, discrete inverse, exp(logpdf)=pdf, point mass)',
            'Generated samples (>=5 distinct values or constant; 6 decades of location/scale, ties, heavy tails) x every univariate class and option x evaluation points and probabilities through the EPS clipping zone.',
            'Quadrature-based clauses count inconclusive cases instead of failing; tolerances stated in DESIGN 4/C03.'),
    'C04': (PBT + 'generating-law CDF bands, exact closed-form estimators, own weighted kernel-sum reference for the KDE',
            'Generated family members over wide parameter ranges, n 200..5000; closeness for every dataset (closed-form / own optimiser) or by the exact-binomial 80% rule (scipy MLE families).',
            'Bands 3.5/sqrt(n) and 4.5/sqrt(n) measured with margin; see DESIGN 4/C04.'),
    'C05': (PBT + 'differential: own KS arg-min over freshly fitted candidates, tag-filter reference, per-column configuration reference, fallback contract',
            'Generated datasets x candidate lists / filter combinations / per-column configurations incl. a distribution that raises during fit.',
            'Ties between candidates may go either way (validity predicate, not a single expected answer).'),
    'C06': (PBT + '50-digit mpmath reference CDF + copula axioms, generator identity, theta ordering, row independence',
            'Generated (family, theta, point batch): theta across the whole |tau|<=0.8 range (Gumbel theta=1, Frank near 0 and +-18.2), points mixing interior, boundary-hugging (1e-12), exact-boundary and denormal coordinates; rectangles for 2-increasingness.',
            'Trusted: mpmath closed forms of Nelsen table 4.1. Tolerances 1e-12 (Clayton, Gumbel), 1e-12+32 eps (1+e^|theta|)/|theta| (Frank).'),
    'C07': (PBT + 'mpmath.diff derivatives of the reference CDF + range/monotonicity/limit/symmetry invariants + quadrature identities between the code\'s own C, h and c + row independence',
            'Generated (family, theta, interior point batch); h and c are compared with 40-digit numerical derivatives of an independent reference CDF, and the code\'s C, h, c are tied together by adaptive quadrature on generated intervals and rectangles.',
            'Trusted: mpmath.diff; tolerance rel 1e-9 (+64 eps e^|theta| for Frank).'),
    'C08': (PBT + 'round trip h(ppf(y,v),v)=y against the code and an independent reference h, monotonicity, lane independence',
            'Generated (family, theta, vectors of (y,v) in [1e-4,1-1e-4]^2 of length 1..200).',
            'Root-finder tolerance 1e-6 in y.'),
    'C09': (PBT + 'DKW bands and an atom test on the margins, Bernstein U-statistic band on Kendall tau, grid joint-CDF band against code and reference CDF, Rosenblatt transform uniformity, exact binomial test of the four corner-box masses on large enumerated samples',
            'Generated (family, tau or theta as float / numpy scalar / 0-d array, seed, n, rows from one call or from many calls of 1-3 rows, a sibling copula sampled in between); statistical agreement with false-alarm probability < 1e-9 per run.',
            'Weak-but-sound bands; sharp content in C06-C08.'),
    'C10': (PBT + 'tau-b equality with scipy, closed-form / Debye-function calibration reference, refusal contract (ValueError)',
            'Generated (n,2) pseudo-observations incl. ties, (anti-)monotone, exact tau=0, constant columns and out-of-range values.',
            'Frank solver accuracy by |tau|: 1e-5 (>= 0.1), 5e-4 (>= 0.01), 5e-3 below - from the measured accuracy of the library\'s calibration.'),
    'C11': (PBT + 'calibration of the returned object, determinism metamorphic relation, recovery rate by exact binomial test against 70%',
            'Generated arbitrary pseudo-observation arrays + samples from an independent reference sampler per (family, tau) cell.',
            'Recovery clause statistical.'),
    'C12': (PBT + 'exact fixed-column check + own Schur-complement conditional law (censored-normal DKW, whitened joint test) + tail conditioning (continuity and law of the free column for conditions at +-4.3..5.15 sigma under |rho| >= 0.97)',
            'Generated fitted models x condition subsets in arbitrary order x values in/at/outside the range x dict/Series, with a second live model answering the same conditions first.',
            'Statistical bands alpha 1e-13 per assertion.'),
    'C13': (PBT + 'own MVN density, MVN CDF on own normal scores, container / permutation / row-independence metamorphic relations',
            'Generated fitted models x query batches x containers (DataFrame with permuted columns and non-default row labels, ndarray, float32 frame / array, Series), with a second live model fitted and queried in between.',
            'For d>=3 the MVN integrator is scipy\'s (2e-4 tolerance); data flow is independent.'),
    'C14': (PBT + 'round-trip observational equality (to_dict, probes, seeded sample streams) across dict / pickle / JSON routes, repeated',
            'Generated models of every class with options, trained on generated data incl. constant and edge parameters.',
            'Observation = public API only.'),
    'C15': (PBT + 'model-based generated call histories: global-RNG-state invariant, isolated twin replay, exception safety',
            'Generated interleavings of sample / set_random_state / global RNG perturbation / raising calls over a pool of all sampler classes.',
            'Single-threaded histories.'),
    'C16': (PBT + 'independent regular-vine structural validator, star/path shape, Kruskal maximum-spanning weight',
            'Generated tables d 2..7 x vine type x truncation; every fitted vine is validated structurally.',
            'Rejected inputs (ValueError on degenerate dependence) are counted.'),
    'C17': (PBT + 'variable-identity recursion reference for pair copulas, pseudo-observations and likelihood; determinism under np.empty poisoning; d=2 sampling bands',
            'Generated tables d 2..6 x vine type x truncation x u in (0,1)^d.',
            'Sampling clause statistical.'),
    'C18': (PBT + 'known-root reference for generated monotone function batches, lane-independence metamorphic relation, invalid-bracket error contract',
            'Generated batches of 1..1000 lanes from 7 monotone function kinds, slopes over 12 decades, roots at bracket ends, mixed per-lane difficulty; both solvers also driven through GaussianKDE.percent_point.',
            'The sign of the generated f is exact around the root; chandrupatla tolerance includes 8 ulp of the bracket end.'),
    'C19': (PBT + 'model-based generated fit histories: refit == fresh fit observationally, NotFittedError / ValueError contract, get_instance clone equivalence, np.empty poison differential (fault injection)',
            'Generated sequences of fits on constant / non-constant datasets over every model class, invalid inputs, prototype forms.',
            'Uninitialised-memory clause decided for the np.empty sites in tree.py / vine.py by poisoning.'),
    'C20': (PBT + 'deep snapshot equality of every argument before/after, read-only ndarray inputs, reuse of the same objects, figure trace multisets',
            'Generated calls of every public entry point with every documented container.',
            'Figures inspected through plotly trace data.'),
}


def main():
    present = sorted(fn[:-3].upper() for fn in os.listdir(os.path.join(HERE, 'checks'))
                     if fn.startswith('c') and fn.endswith('.py') and fn[1:-3].isdigit())
    props = [json.loads(line)['id'] for line in open(os.path.join(HERE, 'properties.jsonl')) if line.strip()]
    checks = []
    not_applicable = []
    for pid in props:
        if pid in present and pid in CHECKS:
            tech, text, note = CHECKS[pid]
            ref = 'DESIGN.md section 4, ' + pid
            text = text + ' Exploration, not proof: case counts and class histograms are in the evidence file; the mutants listed in notes/mutants.md are killed in the quick tier.'
            checks.append({
                'property_id': pid,
                'quick_cmd': '/venv/bin/python run_check.py %s --tier quick' % pid,
                'thorough_cmd': '/venv/bin/python run_check.py %s --tier thorough' % pid,
                'evidence_file': 'evidence/%s.json' % pid,
                'replay_cmd_template': '/venv/bin/python run_check.py %s --replay {path}' % pid,
                'engine': 'hypothesis-pbt',
                'level_claimed': {'category': 'exploration', 'text': text, 'design_ref': ref},
                'level_note': note,
                'technique': tech,
            })
        else:
            not_applicable.append({
                'property_id': pid,
                'reason': 'check not built yet in this revision (planned, see DESIGN.md section 4); '
                          'property-based testing applies to it',
            })
    manifest = {
        'version': 1,
        'setup_cmd': './setup.sh',
        'hooks': {
            'guard': 'SDV_DEV_COPULAS_VERIF',
            'enable': 'no source hooks: the harness imports /repo (VERIF_REPO) directly in a fresh interpreter; '
                      'the only instrumentation (np.empty poisoning for C17/C19) is injected from the harness process',
            'baseline_off_cmd': 'cd /repo && /venv/bin/python -m pytest -q -p no:cacheprovider --timeout=900 '
                                '--continue-on-collection-errors',
            'source_commits': [],
            'add_only': True,
        },
        'engines': [{
            'name': 'hypothesis-pbt',
            'path': 'run_check.py',
            'serves_properties': [c['property_id'] for c in checks],
            'kind_free_text': 'Hypothesis 6.168 generated-input search (16 seeded shards in fresh interpreters) against '
                              'explicit oracles in checks/cNN.py; replay files are plain JSON cases',
        }],
        'checks': checks,
        'notes': 'Every check: exit 0 held / exit 1 with VIOLATION line / exit 2 harness error. VERIF_SEED and VERIF_TIER '
                 'are honoured; VERIF_REPO overrides the tree under test (mutation campaign only). known_findings.json '
                 'lists open and fixed findings.',
        'not_applicable': not_applicable,
    }
    with open(os.path.join(HERE, 'MANIFEST.json'), 'w') as f:
        json.dump(manifest, f, indent=1)
    print('MANIFEST.json: %d checks, %d not claimed' % (len(checks), len(not_applicable)))


if __name__ == '__main__':
    main()
