#!/venv/bin/python
"""Run the repository suite and compare with /root/.vp/BASELINE.json: every stable test must pass."""
import json, os, subprocess, sys, tempfile, xml.etree.ElementTree as ET
base = json.load(open('/root/.vp/BASELINE.json'))
stable = set(base['stable_pass'])
fd, xml = tempfile.mkstemp(suffix='.xml'); os.close(fd)
p = subprocess.run(['/venv/bin/python', '-m', 'pytest', '-q', '-p', 'no:cacheprovider', '--timeout=900',
                    '--continue-on-collection-errors', '--junitxml=' + xml, '-x' if '--x' in sys.argv else '-q'],
                   cwd='/repo', stdout=subprocess.PIPE, stderr=subprocess.STDOUT, text=True)
passed, failed = set(), set()
for tc in ET.parse(xml).getroot().iter('testcase'):
    name = '%s::%s' % (tc.get('classname'), tc.get('name'))
    if any(ch.tag in ('failure', 'error') for ch in tc):
        failed.add(name)
    elif not any(ch.tag == 'skipped' for ch in tc):
        passed.add(name)
os.remove(xml)
missing = sorted(stable - passed)
print('passed %d failed %d; stable baseline %d; stable tests not passing: %d' % (len(passed), len(failed), len(stable), len(missing)))
for m in missing[:40]:
    print('  NOT PASSING:', m)
newly = sorted(passed - stable)
print('newly passing (were always_fail): %d' % len(newly))
sys.exit(1 if missing else 0)
