"""Predicates used by known_findings.json.  Each is a pure function
(sub, case, violation, params) -> bool that recognises ONE specific, documented defect."""


def truncated_gaussian_scale_cap(sub, case, v, params):
    """D16: TruncatedGaussian._fit bounds the scale by (max-min)^2, so a sample whose range is below 1 cannot be
    fitted when its true scale exceeds range^2.  Matches only band misses of TruncatedGaussian fits on data with
    range < 1 where the fitted scale sits at that cap."""
    if v.tag not in ('recovery-true', 'recovery-empirical'):
        return False
    if case.get('family') != 'truncnorm':
        return False
    d = v.detail or {}
    rng = d.get('range')
    scale = (d.get('params') or {}).get('scale')
    if rng is None or scale is None:
        return False
    return rng < 1.0 and scale >= 0.98 * rng ** 2
