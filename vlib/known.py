"""Predicates used by known_findings.json.  Each is a pure function
(sub, case, violation, params) -> bool that recognises ONE specific, documented defect."""
