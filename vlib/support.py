"""Duck-typed helper distributions used as generated configurations."""

import numpy as np


class Boom(object):
    """A 'distribution' whose fit always raises - GaussianMultivariate must fall back to a Gaussian."""

    fitted = False

    def __init__(self, *args, **kwargs):
        pass

    def fit(self, X):
        raise RuntimeError('Boom: this distribution cannot be fitted')

    def cdf(self, X):
        raise RuntimeError('Boom')

    def to_dict(self):
        raise RuntimeError('Boom')


class BoomOnNegative(Boom):
    """Raises only for data containing negative values."""

    def fit(self, X):
        if np.min(np.asarray(X, dtype=float)) < 0:
            raise ValueError('negative data')
        from copulas.univariate import UniformUnivariate

        self._m = UniformUnivariate()
        self._m.fit(X)
        self.fitted = True

    def cdf(self, X):
        return self._m.cdf(X)

    def percent_point(self, U):
        return self._m.percent_point(U)

    def to_dict(self):
        return self._m.to_dict()
