"""Fault injection for "no result depends on uninitialised memory": the module-level name `np` inside
copulas.multivariate.tree / .vine is swapped for a proxy whose empty() returns a buffer filled with a
chosen poison value (all np.empty call sites of the package live in these two modules)."""

import contextlib

import numpy as np


class _PoisonedNumpy(object):
    def __init__(self, poison):
        self._poison = poison
        self.calls = 0

    def __getattr__(self, name):
        return getattr(np, name)

    def empty(self, shape, dtype=float, **kwargs):
        self.calls += 1
        return np.full(shape, self._poison, dtype=dtype)


@contextlib.contextmanager
def poisoned(poison):
    import copulas.multivariate.tree as T
    import copulas.multivariate.vine as V

    proxy = _PoisonedNumpy(poison)
    old_t, old_v = T.np, V.np
    T.np, V.np = proxy, proxy
    try:
        yield proxy
    finally:
        T.np, V.np = old_t, old_v


def empty_call_sites():
    """Source locations of np.empty in the package under test (to keep the claim 'all sites' honest)."""
    import os
    import re

    import copulas

    root = os.path.dirname(copulas.__file__)
    out = []
    for dirpath, _, files in os.walk(root):
        for fn in files:
            if fn.endswith('.py'):
                path = os.path.join(dirpath, fn)
                for i, line in enumerate(open(path), 1):
                    if re.search(r'\bnp\.empty\(|numpy\.empty\(|empty_like\(', line):
                        out.append('%s:%d' % (os.path.relpath(path, root), i))
    return out
