"""JSON-able specifications of models / marginal configurations and their instantiation."""

import numpy as np
from hypothesis import strategies as st

UNI_CLASSES = ['GaussianUnivariate', 'UniformUnivariate', 'BetaUnivariate', 'GammaUnivariate', 'StudentTUnivariate',
               'LogLaplace', 'TruncatedGaussian', 'GaussianKDE']
FAST_CLASSES = ['GaussianUnivariate', 'UniformUnivariate', 'GaussianKDE', 'TruncatedGaussian', 'GammaUnivariate']
FQN = {
    'GaussianUnivariate': 'copulas.univariate.gaussian.GaussianUnivariate',
    'UniformUnivariate': 'copulas.univariate.uniform.UniformUnivariate',
    'BetaUnivariate': 'copulas.univariate.beta.BetaUnivariate',
    'GammaUnivariate': 'copulas.univariate.gamma.GammaUnivariate',
    'StudentTUnivariate': 'copulas.univariate.student_t.StudentTUnivariate',
    'LogLaplace': 'copulas.univariate.log_laplace.LogLaplace',
    'TruncatedGaussian': 'copulas.univariate.truncated_gaussian.TruncatedGaussian',
    'GaussianKDE': 'copulas.univariate.gaussian_kde.GaussianKDE',
    'Univariate': 'copulas.univariate.base.Univariate',
}


def uni_class(name):
    import copulas.univariate as cu

    return getattr(cu, name)


def dist_atom(classes=UNI_CLASSES, allow_default=True, allow_wrapper=True):
    """One distribution configuration for a column."""
    parts = [
        st.fixed_dictionaries({'form': st.just('class'), 'name': st.sampled_from(classes)}),
        st.fixed_dictionaries({'form': st.just('fqn'), 'name': st.sampled_from(classes)}),
        st.fixed_dictionaries({'form': st.just('instance'), 'name': st.sampled_from(classes), 'opts': st.just({})}),
        st.fixed_dictionaries({'form': st.just('instance'), 'name': st.just('GaussianKDE'), 'positional': st.booleans(),
                               'opts': st.fixed_dictionaries({'bw_method': st.sampled_from(['scott', 'silverman', 0.2, 0.5, 1.0])})}),
    ]
    if allow_default:
        parts.append(st.fixed_dictionaries({'form': st.just('default')}))
    if allow_wrapper:
        parts.append(st.fixed_dictionaries({'form': st.just('instance'), 'name': st.just('Univariate'), 'positional': st.booleans(),
                                            'opts': st.fixed_dictionaries({'candidates': st.lists(st.sampled_from(FAST_CLASSES), min_size=1, max_size=3, unique=True)})}))
        parts.append(st.fixed_dictionaries({'form': st.just('instance'), 'name': st.just('Univariate'), 'positional': st.booleans(),
                                            'opts': st.fixed_dictionaries({'parametric': st.just('PARAMETRIC'),
                                                                           'bounded': st.sampled_from(['BOUNDED', 'UNBOUNDED', 'SEMI_BOUNDED'])})}))
    return st.one_of(*parts)


def build_dist(atom):
    """Return the object to pass as `distribution` (or as a dict value)."""
    import copulas.univariate as cu

    form = atom['form']
    if form == 'default':
        return cu.Univariate
    if form == 'class':
        return uni_class(atom['name'])
    if form == 'fqn':
        return FQN[atom['name']]
    opts = dict(atom.get('opts') or {})
    if atom['name'] == 'Univariate':
        if 'candidates' in opts:
            opts['candidates'] = [uni_class(c) for c in opts['candidates']]
        if 'parametric' in opts:
            opts['parametric'] = cu.ParametricType[opts['parametric']]
        if 'bounded' in opts:
            opts['bounded'] = cu.BoundedType[opts['bounded']]
    if atom.get('positional'):
        # the same configuration written positionally: Univariate(candidates, parametric, bounded), GaussianKDE(sample_size,
        # random_state, bw_method) - a prototype is cloned with all its constructor arguments, however they were passed
        if atom['name'] == 'Univariate':
            return uni_class('Univariate')(opts.get('candidates'), opts.get('parametric'), opts.get('bounded'))
        if atom['name'] == 'GaussianKDE':
            return uni_class('GaussianKDE')(None, None, opts.get('bw_method'))
    return uni_class(atom['name'])(**opts)


def expected_types(atom):
    """Set of class names the fitted marginal may have for this configuration."""
    import copulas.univariate as cu

    form = atom['form']
    if form == 'default':
        return set(UNI_CLASSES)
    if atom['name'] != 'Univariate':
        return {atom['name']}
    opts = atom.get('opts') or {}
    if 'candidates' in opts:
        return set(opts['candidates'])
    out = set()
    for name in UNI_CLASSES:
        cls = uni_class(name)
        if 'parametric' in opts and cls.PARAMETRIC != cu.ParametricType[opts['parametric']]:
            continue
        if 'bounded' in opts and cls.BOUNDED != cu.BoundedType[opts['bounded']]:
            continue
        out.add(name)
    return out


def gaussian_config(d, classes=FAST_CLASSES, allow_default=False):
    """Configuration of GaussianMultivariate(distribution=...) for d columns (column indices, mapped to names later)."""
    atom = dist_atom(classes, allow_default=allow_default, allow_wrapper=False)
    single = st.fixed_dictionaries({'mode': st.just('single'), 'dist': atom})
    percol = st.fixed_dictionaries({
        'mode': st.just('dict'),
        'cols': st.dictionaries(st.integers(0, d - 1).map(str), atom, min_size=0, max_size=d),
    })
    return st.one_of(single, percol)


def build_gaussian(config, names, random_state=None):
    from copulas.multivariate import GaussianMultivariate

    if config['mode'] == 'single':
        dist = build_dist(config['dist'])
    else:
        dist = {names[int(k)]: build_dist(v) for k, v in config['cols'].items()}
    return GaussianMultivariate(distribution=dist, random_state=random_state)


def atom_for_column(config, j):
    if config['mode'] == 'single':
        return config['dist']
    return config['cols'].get(str(j), {'form': 'default'})


# ---- derived (degenerate) columns -----------------------------------------------------------------

def derived_ops(d):
    return st.lists(st.fixed_dictionaries({
        'op': st.sampled_from(['dup', 'neg', 'affine', 'mono', 'const', 'noisy']),
        'src': st.integers(0, d - 1),
    }), max_size=2)


def add_derived(df, ops, seed=0):
    """Append derived columns (duplicates, negations, affine/monotone transforms, constants)."""
    import pandas as pd

    df = df.copy()
    rs = np.random.RandomState(seed)
    base_cols = list(df.columns)
    for i, op in enumerate(ops):
        src = df[base_cols[op['src'] % len(base_cols)]].to_numpy()
        k = op['op']
        if k == 'dup':
            x = src.copy()
        elif k == 'neg':
            x = -src
        elif k == 'affine':
            x = 3.5 * src - 7.0
        elif k == 'mono':
            s = np.std(src) or 1.0
            x = np.exp((src - np.mean(src)) / s)
        elif k == 'const':
            x = np.full(len(src), float(src[0]))
        else:
            x = src + rs.normal(size=len(src)) * (np.std(src) or 1.0) * 1e-3
        df['d%d_%s' % (i, k)] = x
    return df


def variant_table(df, seed):
    """Another table with the same schema but different marginals and (shuffled) dependence - used to give a model
    object a history (an earlier fit) before the fit under test."""
    rs = np.random.RandomState(seed)
    other = df.copy()
    for c in list(df.columns):
        v = other[c].to_numpy().astype(float)
        other[c] = rs.permutation(v) * rs.uniform(0.5, 2.0) + rs.normal() * (np.std(v) + 1.0)
    return other
