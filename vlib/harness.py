"""Common machinery: sub-property registration, Hypothesis driving, sharding, evidence, replay,
known-finding matching, exit-code policy.  See DESIGN.md section 2.

A check module (checks/cNN.py) exposes

    PROPERTY_ID = 'C18'
    RULE        = 'how cases are generated and what makes one non-trivial'
    ASSUMPTIONS = [...]
    SUBS        = [Sub(name, strategy, oracle, quick=N, thorough=M, shrink=True), ...]

`strategy` is a Hypothesis strategy that produces a JSON-serialisable *case* (dict);
`oracle(case)` runs the code under test on it, raises `Violation` when the property is broken and
returns an info dict {'nontrivial': bool, 'classes': [str, ...]} otherwise.  A replay file is
just {property, sub, case}; replaying calls oracle(case) without Hypothesis.
"""

import hashlib
import json
import math
import os
import random
import subprocess
import sys
import time
import traceback
import warnings
from collections import Counter

HERE = os.path.dirname(os.path.dirname(os.path.abspath(__file__)))
REPO = os.environ.get('VERIF_REPO', '/repo')

EXIT_OK, EXIT_VIOLATION, EXIT_HARNESS = 0, 1, 2


class Violation(Exception):
    """The property is broken for this case (as opposed to a harness error)."""

    def __init__(self, msg, tag='oracle', detail=None):
        super().__init__(msg)
        self.msg = str(msg)
        self.tag = tag
        self.detail = detail
        self.case = None
        self.sub = None

    def to_json(self):
        return {'message': self.msg[:2000], 'tag': self.tag, 'detail': jsonable(self.detail)}


class Sub(object):
    """One executable sub-property."""

    def __init__(self, name, strategy, oracle, quick=100, thorough=1000, shrink=True,
                 quick_shards=None, weight=1, enumerate_cases=None, use_target=False):
        self.use_target = use_target
        # enumerate_cases(tier, seed) -> list of cases: a finite part of the domain that is enumerated
        # (round-robin over the shards) instead of drawn; `strategy` may then be None.
        self.enumerate_cases = enumerate_cases
        self.name = name
        self.strategy = strategy
        self.oracle = oracle
        self.quick = quick
        self.thorough = thorough
        self.shrink = shrink
        self.quick_shards = quick_shards


def jsonable(x):
    import numpy as np

    if x is None or isinstance(x, (bool, int, str)):
        return x
    if isinstance(x, float):
        return x
    if isinstance(x, (np.bool_,)):
        return bool(x)
    if isinstance(x, np.integer):
        return int(x)
    if isinstance(x, np.floating):
        return float(x)
    if isinstance(x, np.ndarray):
        return jsonable(x.tolist())
    if isinstance(x, dict):
        return {str(k): jsonable(v) for k, v in x.items()}
    if isinstance(x, (list, tuple, set, frozenset)):
        return [jsonable(v) for v in x]
    return repr(x)[:500]


def case_hash(case):
    return hashlib.sha1(json.dumps(case, sort_keys=True, default=repr).encode()).hexdigest()[:16]


def setup_paths():
    """Put the code under test (VERIF_REPO, default /repo) first and our deps last on sys.path."""
    sys.dont_write_bytecode = True
    if HERE not in sys.path:
        sys.path.insert(0, HERE)
    deps = os.path.join(HERE, '.deps')
    if deps not in sys.path:
        sys.path.append(deps)
    # the repo is installed in /venv in editable mode pointing at /repo; force the tree we want
    sys.path.insert(0, REPO)
    import copulas

    got = os.path.realpath(os.path.dirname(copulas.__file__))
    want = os.path.realpath(os.path.join(REPO, 'copulas'))
    if got != want:
        raise RuntimeError('copulas imported from %s, expected %s' % (got, want))


def rotate_sampling(seed, shard):
    """Hypothesis' generation favours the first ("simplest") element of sampled_from - prefixes are extended with
    minimal choices, and every run starts from the minimal example - so with ~50 cases per shard the first family /
    class / option of every list got most of the cases (measured: GaussianUnivariate 72 cases, UniformUnivariate 3).
    Each shard therefore sees every list rotated by a different offset (a pure function of seed, shard and the list itself),
    which evens out the pooled distribution.  Only the generator is affected; cases, oracles and replays are not."""
    import hypothesis.strategies as st

    if getattr(st.sampled_from, '_verif_rotated', False):
        return
    import zlib

    original = st.sampled_from

    def sampled_from(elements, *a, **kw):
        if isinstance(elements, (list, tuple)) and len(elements) > 1 and not a and not kw:
            # the offset must not depend on how often a composite strategy was executed (that would make data
            # generation inconsistent between runs of one test case): only on the content of the list
            site = zlib.crc32(repr(list(elements)).encode()) % 7
            r = (shard + seed + site) % len(elements)
            elements = list(elements[r:]) + list(elements[:r])
        return original(elements, *a, **kw)

    sampled_from._verif_rotated = True
    st.sampled_from = sampled_from


def lib_frame(exc):
    """Innermost traceback frame inside the code under test: (file:function:line)."""
    tb = traceback.extract_tb(exc.__traceback__)
    inner = None
    for fr in tb:
        if '/copulas/' in fr.filename:
            inner = fr
    if inner is None:
        return None
    return '%s:%s' % (inner.filename.split('/copulas/', 1)[1], inner.name)


def call(fn, *args, allow=(), what=None, **kwargs):
    """Call library code.  Exceptions in `allow` are returned as ('exc', e); any other exception
    is a Violation ("raises where the property requires a value").  Returns ('ok', value)."""
    try:
        return 'ok', fn(*args, **kwargs)
    except allow as e:  # noqa
        return 'exc', e
    except Violation:
        raise
    except Exception as e:  # library raised something the property does not allow
        name = what or getattr(fn, '__qualname__', getattr(fn, '__name__', repr(fn)))
        raise Violation(
            '%s raised %s: %s' % (name, type(e).__name__, str(e)[:300]),
            tag='raises:%s' % type(e).__name__,
            detail={'frame': lib_frame(e), 'call': name},
        )


def value(fn, *args, **kwargs):
    """Call library code that must return a value."""
    return call(fn, *args, **kwargs)[1]


def require(cond, msg, tag='oracle', detail=None):
    if not cond:
        raise Violation(msg, tag=tag, detail=detail)


# ------------------------------------------------------------------------------------------------
# known findings
# ------------------------------------------------------------------------------------------------

def load_known(prop):
    path = os.path.join(HERE, 'known_findings.json')
    if not os.path.exists(path):
        return []
    with open(path) as f:
        data = json.load(f)
    return [e for e in data.get('findings', []) if e.get('property') == prop]


def match_known(known, sub, case, violation):
    """Return the id of the first *open* finding whose predicate matches, else None."""
    from vlib import known as predicates

    for entry in known:
        if entry.get('status') != 'open':
            continue
        pred = getattr(predicates, entry['predicate'])
        try:
            if pred(sub, case, violation, entry.get('params', {})):
                return entry['id']
        except Exception:
            continue
    return None


# ------------------------------------------------------------------------------------------------
# per-shard collector
# ------------------------------------------------------------------------------------------------

class Collector(object):
    def __init__(self, prop, tier, seed, shard, nshards, budget_s):
        self.prop = prop
        self.tier = tier
        self.seed = seed
        self.shard = shard
        self.nshards = nshards
        self.deadline = time.time() + budget_s
        self.known = load_known(prop)
        self.evaluations = 0
        self.per_sub = Counter()
        self.nontrivial = set()
        self.nontrivial_per_sub = Counter()
        self.classes = Counter()
        self.known_hits = Counter()
        self.known_examples = {}
        self.skipped_budget = 0
        self.samples = []
        self.violations = []
        self.harness_errors = []
        self._rng = random.Random(seed * 7919 + shard)
        # shrink-time cap: once a sub-property has failed, stop exploring new shrink candidates after
        # `shrink_cap_s` (the last failing case still fails when Hypothesis replays it at the end)
        self.shrink_cap_s = 40 if tier == 'quick' else 240
        self.fail_t0 = {}
        self.fail_hashes = {}
        # pooled rate clauses: oracles may return info['tally'] = {key: [successes, trials]}; the main process sums them
        # over all shards and applies the module's POOLED tests (exact binomial) to the totals
        self.tally = {}
        self.tally_cases = {}
        self.skipped_shrink = 0

    def run_case(self, sub, case, replaying=False):
        """Run one case through the oracle, applying the known-finding policy."""
        if not replaying and time.time() > self.deadline:
            self.skipped_budget += 1
            return
        if not replaying and sub.name in self.fail_t0 and time.time() - self.fail_t0[sub.name] > self.shrink_cap_s \
                and case_hash(case) not in self.fail_hashes.get(sub.name, ()):
            self.skipped_shrink += 1
            return
        try:
            info = sub.oracle(case) or {}
        except Violation as v:
            v.case = case
            v.sub = sub.name
            kf = match_known(self.known, sub.name, case, v)
            if kf is None:
                self.fail_t0.setdefault(sub.name, time.time())
                self.fail_hashes.setdefault(sub.name, set()).add(case_hash(case))
            if kf is not None:
                self.known_hits[kf] += 1
                self.known_examples.setdefault(kf, {'sub': sub.name, 'case': trim(case),
                                                    'message': v.msg[:300]})
                info = {'nontrivial': False, 'classes': ['known-finding:' + kf]}
            else:
                raise
        self.evaluations += 1
        self.per_sub[sub.name] += 1
        for key, (ok_, tot_) in (info.get('tally') or {}).items():
            t = self.tally.setdefault(key, [0, 0])
            t[0] += int(ok_)
            t[1] += int(tot_)
            self.tally_cases.setdefault(key, []).append(case)
        for c in info.get('classes', []):
            self.classes[sub.name + ':' + c] += 1
        if info.get('nontrivial'):
            h = case_hash(case)
            if h not in self.nontrivial:
                self.nontrivial.add(h)
                self.nontrivial_per_sub[sub.name] += 1
        # samples: first two per sub, then reservoir
        n = self.per_sub[sub.name]
        entry = {'sub': sub.name, 'case': trim(case), 'info': jsonable(info)}
        mine = [i for i, s in enumerate(self.samples) if s['sub'] == sub.name]
        if len(mine) < 3:
            self.samples.append(entry)
        elif self._rng.random() < 3.0 / n:
            self.samples[self._rng.choice(mine[1:])] = entry

    def result(self):
        return {
            'shard': self.shard,
            'evaluations': self.evaluations,
            'per_sub': dict(self.per_sub),
            'nontrivial': sorted(self.nontrivial),
            'nontrivial_per_sub': dict(self.nontrivial_per_sub),
            'classes': dict(self.classes),
            'known_hits': dict(self.known_hits),
            'known_examples': self.known_examples,
            'skipped_budget': self.skipped_budget,
            'samples': self.samples,
            'violations': self.violations,
            'harness_errors': self.harness_errors,
            'tally': self.tally,
            'tally_cases': self.tally_cases,
        }


def trim(obj, maxlen=24):
    """Shorten long lists for human-readable evidence samples (replays keep everything)."""
    if isinstance(obj, dict):
        return {k: trim(v, maxlen) for k, v in obj.items()}
    if isinstance(obj, (list, tuple)):
        if len(obj) > maxlen:
            return [trim(v, maxlen) for v in obj[:maxlen]] + ['... %d more' % (len(obj) - maxlen)]
        return [trim(v, maxlen) for v in obj]
    return jsonable(obj)


# ------------------------------------------------------------------------------------------------
# running one shard
# ------------------------------------------------------------------------------------------------

def sub_seed(seed, shard, name):
    h = hashlib.sha1(('%d/%d/%s' % (seed, shard, name)).encode()).hexdigest()
    return int(h[:12], 16)


def write_violation(prop, sub, v):
    d = os.path.join(HERE, 'out', 'violations', prop)
    os.makedirs(d, exist_ok=True)
    payload = {'property': prop, 'sub': sub, 'case': v.case}
    payload.update(v.to_json())
    path = os.path.join(d, '%s-%s.json' % (sub, case_hash(v.case)))
    with open(path, 'w') as f:
        json.dump(payload, f, indent=1, default=repr)
    return path


def _body(col, sub):
    def body(case):
        col.run_case(sub, case)

    return body


def run_shard(mod, tier, seed, shard, nshards, budget_s, only=None):
    import hypothesis
    from hypothesis import HealthCheck, Phase, given, settings

    warnings.simplefilter('ignore')
    col = Collector(mod.PROPERTY_ID, tier, seed, shard, nshards, budget_s)

    for sub in mod.SUBS:
        if only and sub.name not in only:
            continue
        if sub.enumerate_cases is not None:
            cases = sub.enumerate_cases(tier, seed)
            try:
                for case in cases[shard::nshards]:
                    col.run_case(sub, case)
            except Violation as v:
                path = write_violation(mod.PROPERTY_ID, sub.name, v)
                rec = v.to_json()
                rec.update({'sub': sub.name, 'replay': path})
                col.violations.append(rec)
            except BaseException as e:
                if isinstance(e, KeyboardInterrupt):
                    raise
                col.harness_errors.append({'sub': sub.name, 'error': '%s: %s' % (type(e).__name__, str(e)[:500]),
                                           'traceback': traceback.format_exc()[-3000:]})
            if sub.strategy is None:
                continue
        total = sub.quick if tier == 'quick' else sub.thorough
        n = int(math.ceil(total / float(nshards)))
        if n <= 0:
            continue
        phases = [Phase.generate]
        if sub.use_target:
            phases.append(Phase.target)
        if sub.shrink:
            phases.append(Phase.shrink)
        st = settings(
            max_examples=n,
            database=None,
            deadline=None,
            derandomize=False,
            report_multiple_bugs=False,
            phases=phases,
            suppress_health_check=list(HealthCheck),
            print_blob=False,
            verbosity=hypothesis.Verbosity.quiet,
        )

        test = hypothesis.seed(sub_seed(seed, shard, sub.name))(st(given(sub.strategy)(_body(col, sub))))
        try:
            test()
        except Violation as v:
            if v.case is None:
                col.harness_errors.append({'sub': sub.name, 'error': 'violation without case: ' + v.msg})
                continue
            path = write_violation(mod.PROPERTY_ID, sub.name, v)
            rec = v.to_json()
            rec.update({'sub': sub.name, 'replay': path})
            col.violations.append(rec)
        except BaseException as e:  # harness error (bug in the check, health check, ...)
            if isinstance(e, KeyboardInterrupt):
                raise
            col.harness_errors.append({
                'sub': sub.name,
                'error': '%s: %s' % (type(e).__name__, str(e)[:500]),
                'traceback': traceback.format_exc()[-3000:],
            })
    return col.result()


def replay_file(mod, path, known=None):
    """Replay one saved case.  Returns None if it passes, the Violation otherwise
    (or the matching known-finding id as a string)."""
    with open(path) as f:
        payload = json.load(f)
    subs = {s.name: s for s in mod.SUBS}
    if payload['sub'] not in subs:
        raise RuntimeError('replay %s names unknown sub-property %s' % (path, payload['sub']))
    sub = subs[payload['sub']]
    try:
        sub.oracle(payload['case'])
    except Violation as v:
        v.case = payload['case']
        v.sub = sub.name
        if known is not None:
            kf = match_known(known, sub.name, v.case, v)
            if kf is not None:
                return kf
        return v
    return None


# ------------------------------------------------------------------------------------------------
# main-process driver
# ------------------------------------------------------------------------------------------------

def merge(results):
    out = {
        'evaluations': 0, 'per_sub': Counter(), 'nontrivial': set(), 'classes': Counter(),
        'known_hits': Counter(), 'known_examples': {}, 'skipped_budget': 0, 'samples': [],
        'violations': [], 'harness_errors': [], 'nontrivial_per_sub': Counter(), 'tally': {}, 'tally_cases': {},
    }
    for r in results:
        out['evaluations'] += r['evaluations']
        out['per_sub'].update(r['per_sub'])
        out['nontrivial'].update(r['nontrivial'])
        out['nontrivial_per_sub'].update(r['nontrivial_per_sub'])
        out['classes'].update(r['classes'])
        out['known_hits'].update(r['known_hits'])
        for k, v in r['known_examples'].items():
            out['known_examples'].setdefault(k, v)
        out['skipped_budget'] += r['skipped_budget']
        out['violations'].extend(r['violations'])
        out['harness_errors'].extend(r['harness_errors'])
        for key, (ok_, tot_) in (r.get('tally') or {}).items():
            t = out['tally'].setdefault(key, [0, 0])
            t[0] += ok_
            t[1] += tot_
            out['tally_cases'].setdefault(key, []).extend(r.get('tally_cases', {}).get(key, []))
    # samples: per sub keep first of shard 0, and up to 3 from other shards
    per = {}
    for r in results:
        for s in r['samples']:
            per.setdefault(s['sub'], []).append(s)
    for name, lst in per.items():
        step = max(1, len(lst) // 3)
        out['samples'].extend(lst[::step][:3])
    return out


def write_evidence(mod, tier, seed, merged, wall, replayed, nshards):
    known = load_known(mod.PROPERTY_ID)
    cov = {
        'evaluations': int(merged['evaluations']),
        'distinct_nontrivial': len(merged['nontrivial']),
        'rule': mod.RULE,
        'samples': merged['samples'],
        'per_sub_property_evaluations': dict(merged['per_sub']),
        'per_sub_property_distinct_nontrivial': dict(merged['nontrivial_per_sub']),
        'class_histogram': dict(sorted(merged['classes'].items())),
        'known_finding_hits': dict(merged['known_hits']),
        'known_finding_examples': merged['known_examples'],
        'open_known_findings': [e['id'] for e in known if e.get('status') == 'open'],
        'skipped_after_time_budget': merged['skipped_budget'],
        'replayed_regression_cases': replayed,
        'shards': nshards,
        'exhaustive': False,
        'code_under_test': REPO,
        'harness_errors': merged['harness_errors'],
        'pooled_rate_tallies': {k: {'successes': v[0], 'trials': v[1]} for k, v in sorted(merged.get('tally', {}).items())},
    }
    ev = {
        'property_id': mod.PROPERTY_ID,
        'tier': tier,
        'seed': int(seed),
        'level': getattr(mod, 'LEVEL', 'exploration'),
        'coverage': cov,
        'assumptions': list(getattr(mod, 'ASSUMPTIONS', [])),
        'wall_s': round(wall, 2),
        'violations': len(merged['violations']),
    }
    d = os.path.join(HERE, 'evidence')
    if os.path.realpath(REPO) != '/repo':      # mutation campaign: never overwrite the real evidence
        d = os.path.join(HERE, 'out', 'mutant-evidence')
    os.makedirs(d, exist_ok=True)
    path = os.path.join(d, mod.PROPERTY_ID + '.json')
    tmp = path + '.tmp'
    with open(tmp, 'w') as f:
        json.dump(ev, f, indent=1, default=repr)
    os.replace(tmp, path)
    return path


def drive(prop, tier, seed, nshards, budget_s, only=None):
    """Replay the committed regression corpus, then run the shards in fresh interpreters."""
    import importlib

    t0 = time.time()
    setup_paths()
    warnings.simplefilter('ignore')
    mod = importlib.import_module('checks.' + prop.lower())
    known = load_known(prop)
    violations = []

    # 1. regression corpus (bypasses Hypothesis)
    replayed = 0
    rdir = os.path.join(HERE, 'replays', prop)
    known_hits_replay = Counter()
    files = []
    if os.path.isdir(rdir):
        files = [os.path.join(rdir, fn) for fn in sorted(os.listdir(rdir)) if fn.endswith('.json')]
        tdir = os.path.join(rdir, 'thorough')       # expensive regression cases: thorough tier only
        if tier == 'thorough' and os.path.isdir(tdir):
            files += [os.path.join(tdir, fn) for fn in sorted(os.listdir(tdir)) if fn.endswith('.json')]
    if True:
        for path in files:
            res = replay_file(mod, path, known)
            replayed += 1
            if isinstance(res, Violation):
                rec = res.to_json()
                rec.update({'sub': res.sub, 'replay': path})
                violations.append(rec)
            elif isinstance(res, str):
                known_hits_replay[res] += 1

    # 2. generated search, one fresh interpreter per shard
    # a private scratch directory per run (concurrent runs of the same check must not share shard files)
    os.makedirs(os.path.join(HERE, '.work'), exist_ok=True)
    import tempfile

    work = tempfile.mkdtemp(prefix=prop + '-', dir=os.path.join(HERE, '.work'))
    procs = []
    env = dict(os.environ)
    env['PYTHONHASHSEED'] = '0'
    env['PYTHONDONTWRITEBYTECODE'] = '1'
    env.setdefault('OMP_NUM_THREADS', '1')
    env.setdefault('OPENBLAS_NUM_THREADS', '1')
    env.setdefault('MKL_NUM_THREADS', '1')
    for i in range(nshards):
        out = os.path.join(work, 'shard-%d.json' % i)
        if os.path.exists(out):
            os.remove(out)
        cmd = [sys.executable, os.path.join(HERE, 'run_check.py'), prop, '--tier', tier,
               '--seed', str(seed), '--shard', '%d/%d' % (i, nshards), '--out', out,
               '--budget', str(budget_s)]
        if only:
            cmd += ['--only', ','.join(only)]
        log = open(os.path.join(work, 'shard-%d.log' % i), 'w')
        procs.append((i, out, subprocess.Popen(cmd, env=env, stdout=log, stderr=subprocess.STDOUT), log))

    results = []
    harness_errors = []
    hard_deadline = time.time() + budget_s * 3 + 600
    for i, out, p, log in procs:
        try:
            p.wait(timeout=max(1, hard_deadline - time.time()))
        except subprocess.TimeoutExpired:
            p.kill()
            harness_errors.append({'sub': '*', 'error': 'shard %d exceeded the hard time limit' % i})
        log.close()
        if os.path.exists(out):
            with open(out) as f:
                results.append(json.load(f))
        else:
            tail = ''
            try:
                with open(os.path.join(work, 'shard-%d.log' % i)) as f:
                    tail = f.read()[-2000:]
            except OSError:
                pass
            harness_errors.append({'sub': '*', 'error': 'shard %d produced no result' % i, 'traceback': tail})

    import shutil

    if not harness_errors:
        shutil.rmtree(work, ignore_errors=True)
    merged = merge(results)
    merged['violations'] = violations + merged['violations']
    # pooled rate clauses (exact binomial on the totals over all shards)
    for pooled in getattr(mod, 'POOLED', []):
        for key, (ok_, tot_) in sorted(merged['tally'].items()):
            if not key.startswith(pooled['prefix']) or tot_ == 0:
                continue
            from scipy import stats as _st

            p = float(_st.binom.cdf(ok_, tot_, pooled['rate']))
            if p < pooled.get('alpha', 1e-12):
                v = Violation('%s: %d of %d generated datasets succeed (%.1f%%), required %.0f%%; exact binomial p=%.3g'
                              % (key, ok_, tot_, 100.0 * ok_ / tot_, 100 * pooled['rate'], p), tag='pooled-rate')
                v.case = {'key': key, 'chunks': merged['tally_cases'][key], 'rate': pooled['rate']}
                path = write_violation(prop, pooled['replay_sub'], v)
                rec = v.to_json()
                rec.update({'sub': pooled['replay_sub'], 'replay': path})
                merged['violations'].append(rec)
    merged['harness_errors'].extend(harness_errors)
    merged['known_hits'].update(known_hits_replay)
    wall = time.time() - t0
    write_evidence(mod, tier, seed, merged, wall, replayed, nshards)

    # 3. report
    for e in known:
        if e.get('status') == 'open':
            print('KNOWN-FINDING: property=%s %s [%s; matched %d generated case(s) this run]'
                  % (prop, e['what'], e['id'], merged['known_hits'].get(e['id'], 0)))
    seen = set()
    per_sub_printed = Counter()
    for v in merged['violations']:
        key = (v['sub'], v['replay'])
        if key in seen or per_sub_printed[v['sub']] >= 2:
            continue
        seen.add(key)
        per_sub_printed[v['sub']] += 1
        print('VIOLATION property=%s replay=%s' % (prop, v['replay']))
        print('  sub-property %s: %s' % (v['sub'], v['message'][:600]))
    seen_err = set()
    for h in merged['harness_errors']:
        key = (h['sub'], h['error'])
        if key in seen_err:
            continue
        seen_err.add(key)
        print('HARNESS-ERROR property=%s sub=%s %s' % (prop, h['sub'], h['error']))
        if h.get('traceback'):
            print(h['traceback'])
    print('%s tier=%s seed=%d shards=%d evaluations=%d distinct_nontrivial=%d replayed=%d '
          'violations=%d wall=%.1fs' % (prop, tier, seed, nshards, merged['evaluations'],
                                        len(merged['nontrivial']), replayed,
                                        len(merged['violations']), wall))
    if merged['violations']:
        return EXIT_VIOLATION
    if merged['harness_errors']:
        return EXIT_HARNESS
    if merged['evaluations'] == 0:
        print('HARNESS-ERROR property=%s no case was evaluated' % prop)
        return EXIT_HARNESS
    return EXIT_OK


def target(value_, label=''):
    """hypothesis.target() that is a no-op outside a Hypothesis run (replay mode)."""
    from hypothesis import control

    if control.currently_in_test_context() and value_ == value_ and abs(value_) != float('inf'):
        from hypothesis.errors import InvalidArgument

        try:
            control.target(float(value_), label=label)
        except InvalidArgument:
            pass                 # a second observation under the same label in one case (an oracle called twice): keep the first
