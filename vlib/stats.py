"""Distribution-free finite-sample bands with an explicit false-alarm budget (DESIGN section 2).

alpha_i = 1e-13 per assertion; a run makes at most 1e4 statistical assertions => alpha_run <= 1e-9.
"""

import math

import numpy as np

ALPHA_I = 1e-13


def dkw_eps(n, alpha=ALPHA_I):
    """Dvoretzky-Kiefer-Wolfowitz-Massart: P(sup|F_n - F| > eps) <= 2 exp(-2 n eps^2)."""
    return math.sqrt(math.log(2.0 / alpha) / (2.0 * n))


def ks_distance(sample, cdf):
    """sup_x |F_n(x) - F(x)| for an arbitrary (possibly atomic) F given as a vectorised function."""
    x = np.sort(np.asarray(sample, dtype=float))
    n = len(x)
    F = np.asarray(cdf(x), dtype=float)
    # right-continuous empirical CDF; with atoms use the two-sided comparison at each order statistic.
    hi = np.arange(1, n + 1) / n
    lo = np.arange(0, n) / n
    # left limits of F are needed for exactness with atoms; F(x-) <= F(x) so comparing F(x) with hi
    # and F(x-) with lo is sound when we *under*-estimate: use F(x) for both (conservative for atoms
    # only in the direction of accepting), therefore atoms must be handled by the caller via cdf_left.
    return float(max(np.max(np.abs(F - hi)), np.max(np.abs(F - lo))))


def ks_distance_atoms(sample, cdf, cdf_left):
    """KS distance when F has atoms: uses F(x) against F_n(x) and F(x-) against F_n(x-)."""
    x = np.sort(np.asarray(sample, dtype=float))
    n = len(x)
    ux, counts = np.unique(x, return_counts=True)
    cum = np.cumsum(counts) / n
    cum_left = cum - counts / n
    F = np.asarray(cdf(ux), dtype=float)
    Fl = np.asarray(cdf_left(ux), dtype=float)
    return float(max(np.max(np.abs(F - cum)), np.max(np.abs(Fl - cum_left))))


def tau_band(n, alpha=ALPHA_I):
    """Hoeffding's bound for the U-statistic Kendall tau (kernel in [-1,1], degree 2):
    P(|tau_n - tau| > t) <= 2 exp(-floor(n/2) t^2 / 2)."""
    return math.sqrt(2.0 * math.log(2.0 / alpha) / (n // 2))


def grid_eps(n, G, alpha=ALPHA_I):
    """Hoeffding + union bound for G fixed events."""
    return math.sqrt(math.log(2.0 * G / alpha) / (2.0 * n))


def mean_band(n, sd=1.0, alpha=ALPHA_I):
    """|mean of n iid N(mu, sd^2) - mu| <= z sd / sqrt(n) with two-sided tail alpha."""
    from scipy import stats

    return float(stats.norm.isf(alpha / 2.0) * sd / math.sqrt(n))


def binom_pvalue_below(successes, trials, rate):
    """One-sided exact binomial p-value P(X <= successes) for X ~ Bin(trials, rate)."""
    from scipy import stats

    return float(stats.binom.cdf(successes, trials, rate))


def kendall_tau(x, y):
    from scipy import stats

    return float(stats.kendalltau(x, y)[0])


def tau_a(x, y):
    """Kendall tau-a (the U-statistic the Hoeffding band is about); O(n log n) via scipy tau-b on tie-free data,
    falls back to an exact count when ties exist."""
    from scipy import stats

    x = np.asarray(x)
    y = np.asarray(y)
    n = len(x)
    if len(np.unique(x)) == n and len(np.unique(y)) == n:
        return float(stats.kendalltau(x, y)[0])
    # with ties tau-b != tau-a: tau_a = (C - D) / (n(n-1)/2); recover from tau-b and the tie counts
    tb = stats.kendalltau(x, y)[0]
    if np.isnan(tb):
        return 0.0
    n0 = n * (n - 1) / 2.0
    n1 = sum(c * (c - 1) / 2.0 for c in np.unique(x, return_counts=True)[1])
    n2 = sum(c * (c - 1) / 2.0 for c in np.unique(y, return_counts=True)[1])
    return float(tb * math.sqrt((n0 - n1) * (n0 - n2)) / n0)


def ks_excess_at_resolution(sample, cdf, delta):
    """One-sample KS statistic that treats every sampled value x as the interval [x-delta(x), x+delta(x)]:
    the empirical CDF must lie between F(x-delta) and F(x+delta) up to the returned excess.  This is the
    right comparison when F rises by a visible amount within the floating-point resolution of x (e.g. a
    Gamma with shape 0.1 and |loc| ~ 1e3: F(loc + ulp) = 0.03), where x = F^-1(u) cannot be represented."""
    x = np.sort(np.asarray(sample, dtype=float))
    n = len(x)
    d = np.asarray(delta(x), dtype=float)
    with np.errstate(invalid='ignore'):
        hi = np.asarray(cdf(x + d), dtype=float)
        lo = np.asarray(cdf(x - d), dtype=float)
    hi = np.where(np.isnan(hi), 1.0, hi)
    lo = np.where(np.isnan(lo), 0.0, lo)
    upper = np.arange(1, n + 1) / n - hi        # empirical mass up to x_i must not exceed F(x_i + delta)
    lower = lo - np.arange(0, n) / n            # ... and F(x_i - delta) must not exceed the mass below x_i
    return float(max(upper.max(), lower.max(), 0.0))


def resolution_of(uni):
    """delta(x) for a fitted library univariate: a few ulp of max(|x|, |loc|+|scale|)."""
    try:
        d = uni.to_dict()
        mag = abs(float(d.get('loc', 0.0))) + abs(float(d.get('scale', 0.0)))
    except Exception:
        mag = 0.0
    eps = np.finfo(float).eps

    def delta(x):
        x = np.asarray(x, dtype=float)
        return 8 * eps * np.maximum(np.where(np.isfinite(x), np.abs(x), 0.0), mag)

    return delta


def tau_band_bernstein(n, tau, alpha=ALPHA_I):
    """Bernstein-type bound for the Kendall U-statistic (Hoeffding 1963, eq. 5.7 applied to the average of floor(n/2)
    independent kernels with values in [-1,1] and variance <= 1 - tau^2):
    P(|tau_n - tau| >= t) <= 2 exp(-k t^2 / (2 sigma^2 + (4/3) t)).  Never worse than the plain Hoeffding band."""
    k = n // 2
    L = math.log(2.0 / alpha)
    s2 = max(1.0 - tau * tau, 0.0)
    # solve k t^2 = L (2 s2 + 4 t / 3)
    a, b, c = k, -4.0 * L / 3.0, -2.0 * L * s2
    t = (-b + math.sqrt(b * b - 4 * a * c)) / (2 * a)
    return min(t, tau_band(n, alpha))
