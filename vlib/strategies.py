"""Shared Hypothesis strategies.  Everything they produce is JSON-serialisable."""

import math

import numpy as np
from hypothesis import strategies as st

FAMILIES = ['clayton', 'frank', 'gumbel']
SEEDS = st.integers(0, 2 ** 31 - 1)


def log_uniform(lo, hi):
    return st.floats(math.log10(lo), math.log10(hi)).map(lambda e: float(10.0 ** e))


def theta_strategy(family):
    """theta with |Kendall tau| <= 0.8 in the family's domain."""
    if family == 'clayton':
        return st.one_of(log_uniform(1e-3, 8.0), st.floats(0.05, 8.0), st.sampled_from([0.5, 1.0, 2.0, 8.0]))
    if family == 'gumbel':
        return st.one_of(st.floats(1.0, 5.0), st.floats(1.0, 5.0), log_uniform(1e-6, 4.0).map(lambda x: 1.0 + x),
                         st.sampled_from([1.0, 1.0, 2.0, 5.0]))
    if family == 'frank':
        mag = st.one_of(log_uniform(1e-3, 18.2), st.floats(0.1, 18.2), log_uniform(1e-7, 1e-2), st.sampled_from([1.0, 5.0, 18.2]))
        return st.builds(lambda m, s: m if s else -m, mag, st.booleans())
    raise ValueError(family)


@st.composite
def family_theta(draw, families=FAMILIES):
    fam = draw(st.sampled_from(list(families)))
    return fam, draw(theta_strategy(fam))


def unit_coord(boundary=True):
    """A coordinate in [0,1]: uniform, boundary-hugging (10^-12..10^-1 from an end), exact 0/1, tiny."""
    hug = st.builds(lambda e, top: (1.0 - 10.0 ** e) if top else 10.0 ** e, st.floats(-12, -1), st.booleans())
    parts = [st.floats(0.0, 1.0), st.floats(0.001, 0.999), st.floats(0.001, 0.999), hug]
    if boundary:
        parts += [st.sampled_from([0.0, 1.0]), st.sampled_from([1e-300, 5e-324, 1e-16, 1 - 2.0 ** -53])]
    return st.one_of(*parts)


def interior_coord(lo=1e-4, hi=1 - 1e-4):
    hug = st.builds(lambda e, top: (1.0 - 10.0 ** e) if top else 10.0 ** e,
                    st.floats(math.log10(lo), -1), st.booleans())
    return st.one_of(st.floats(lo, hi), st.floats(0.01, 0.99), hug).map(lambda x: min(max(x, lo), hi))


def unit_points(min_size=1, max_size=40, boundary=True):
    pt = st.one_of(
        st.tuples(unit_coord(boundary), unit_coord(boundary)),
        unit_coord(boundary).map(lambda x: (x, x)),                    # diagonal
    ).map(list)
    return st.lists(pt, min_size=min_size, max_size=max_size)


def interior_points(min_size=1, max_size=40, lo=1e-4, hi=1 - 1e-4):
    pt = st.tuples(interior_coord(lo, hi), interior_coord(lo, hi)).map(list)
    return st.lists(pt, min_size=min_size, max_size=max_size)


def make_copula(family, theta, tau=None, random_state=None):
    """Instantiate the library's copula with the given parameter (the public way to parameterise)."""
    from copulas import bivariate

    cls = {'clayton': bivariate.Clayton, 'frank': bivariate.Frank, 'gumbel': bivariate.Gumbel}[family]
    c = cls(random_state=random_state)
    c.theta = theta
    if tau is None:
        from vlib.refs.archimedean import tau_theory

        tau = tau_theory(family, theta)
    c.tau = tau
    return c


def sibling_theta(family, theta):
    """Another admissible parameter of the same family, clearly different from theta."""
    theta = float(theta)
    if family == 'frank':
        return -theta if abs(theta) > 0.5 else 3.0
    if family == 'gumbel':
        return 1.0 + 1.7 * (theta - 1.0) + 0.8
    return 1.7 * theta + 0.6


def interleave_sibling(cop, family, theta, X, random_state=None, n_sample=0):
    """Two live models of one class: evaluate `cop` once, then a sibling with another parameter on the same points
    (and, if asked, sample it with the same seed and size), so that whatever the class or the module remembers from
    the sibling is in place when the caller's checks evaluate `cop` again.  Nothing is asserted here."""
    import numpy as np

    sib = make_copula(family, sibling_theta(family, theta), random_state=random_state)
    X = np.array(X, dtype=float)
    inner = X[(X[:, 0] > 0) & (X[:, 0] < 1) & (X[:, 1] > 0) & (X[:, 1] < 1)] if len(X) else X
    for obj in (cop, sib):
        for meth in ('cumulative_distribution', 'probability_density', 'partial_derivative'):
            try:
                getattr(obj, meth)(X.copy())
            except Exception:
                pass
        if len(inner):
            try:
                obj.percent_point(inner[:, 0].copy(), inner[:, 1].copy())
            except Exception:
                pass
    if n_sample:
        try:
            sib.sample(n_sample)
        except Exception:
            pass
    return sib


# ---- tables --------------------------------------------------------------------------------------

MARGINALS = ['normal', 'uniform', 'beta', 'gamma', 'student_t', 'loglaplace', 'truncnorm', 'mixture', 'integer']


def marginal_spec(kinds=MARGINALS):
    return st.fixed_dictionaries({
        'kind': st.sampled_from(list(kinds)),
        'a': st.floats(0.5, 10.0),
        'b': st.floats(0.5, 10.0),
        'loc': st.floats(-1000.0, 1000.0),
        'scale_exp': st.one_of(st.floats(-2.0, 3.0), st.floats(-2.0, 3.0), st.floats(-9.0, -2.0)),
    })


def eff_loc(spec):
    """Location of a generated marginal: for scales below 1e-2 the location shrinks with the scale (|loc|/scale <= 1e5)."""
    return spec['loc'] if spec['scale_exp'] >= -2 else spec['loc'] * 10.0 ** (spec['scale_exp'] + 2)


def marginal_ppf(spec, u):
    """Map uniforms to the marginal described by spec (deterministic)."""
    from scipy import stats

    k = spec['kind']
    a, b = spec['a'], spec['b']
    loc, scale = eff_loc(spec), 10.0 ** spec['scale_exp']
    if k == 'normal':
        x = stats.norm.ppf(u)
    elif k == 'uniform':
        x = u
    elif k == 'beta':
        x = stats.beta.ppf(u, a, b)
    elif k == 'gamma':
        x = stats.gamma.ppf(u, a * 2)
    elif k == 'student_t':
        x = stats.t.ppf(u, 2 + 3 * a)
    elif k == 'loglaplace':
        x = stats.loglaplace.ppf(u, 2 + a)
    elif k == 'truncnorm':
        x = stats.truncnorm.ppf(u, -0.2 - a / 4, 0.2 + b / 4)
    elif k == 'mixture':
        x = np.where(u < 0.4, stats.norm.ppf(u / 0.4 * 0.999 + 0.0005), 6 + b + stats.norm.ppf((u - 0.4) / 0.6 * 0.999 + 0.0005))
    elif k == 'integer':
        x = np.floor(stats.norm.ppf(u) * (1 + a))
    else:
        raise ValueError(k)
    return loc + scale * x


def marginal_cdf(spec, x):
    """Generating CDF of a continuous marginal spec (None for mixture/integer)."""
    from scipy import stats

    k = spec['kind']
    a, b = spec['a'], spec['b']
    z = (np.asarray(x, dtype=float) - eff_loc(spec)) / 10.0 ** spec['scale_exp']
    if k == 'normal':
        return stats.norm.cdf(z)
    if k == 'uniform':
        return stats.uniform.cdf(z)
    if k == 'beta':
        return stats.beta.cdf(z, a, b)
    if k == 'gamma':
        return stats.gamma.cdf(z, a * 2)
    if k == 'student_t':
        return stats.t.cdf(z, 2 + 3 * a)
    if k == 'loglaplace':
        return stats.loglaplace.cdf(z, 2 + a)
    if k == 'truncnorm':
        return stats.truncnorm.cdf(z, -0.2 - a / 4, 0.2 + b / 4)
    return None


def correlation_spec(dmin=2, dmax=6):
    return st.fixed_dictionaries({
        'd': st.integers(dmin, dmax),
        'kind': st.sampled_from(['factor', 'equi', 'ar1', 'block', 'factor']),
        'lam': st.sampled_from([0.05, 0.5, 3.0]),
        'rho': st.floats(-0.95, 0.95),
        'seed': SEEDS,
    })


def build_correlation(spec, d=None):
    d = d or spec['d']
    rs = np.random.RandomState(spec['seed'])
    kind = spec['kind']
    if kind == 'factor':
        A = rs.normal(size=(d, max(1, d // 2)))
        S = A @ A.T + spec['lam'] * np.eye(d)
    elif kind == 'equi':
        lo = -1.0 / (d - 1) + 0.02
        rho = lo + (spec['rho'] + 0.95) / 1.9 * (0.97 - lo)
        S = np.full((d, d), rho) + (1 - rho) * np.eye(d)
    elif kind == 'ar1':
        idx = np.arange(d)
        S = spec['rho'] ** np.abs(idx[:, None] - idx[None, :])
    else:  # block
        S = np.eye(d)
        h = max(1, d // 2)
        r1 = 0.3 + 0.6 * abs(spec['rho'])
        S[:h, :h] = r1
        S[h:, h:] = -0.4 / max(1, d - h - 1) if d - h > 1 else 1.0
        np.fill_diagonal(S, 1.0)
        S = S + 0.05 * np.eye(d)
    s = np.sqrt(np.diag(S))
    S = S / s[:, None] / s[None, :]
    S = (S + S.T) / 2
    np.fill_diagonal(S, 1.0)
    return S


def table_spec(dmin=2, dmax=6, nmin=50, nmax=1000, kinds=MARGINALS, constant=True):
    @st.composite
    def specs(draw):
        corr = draw(correlation_spec(dmin, dmax))
        d = corr['d']
        margs = draw(st.lists(marginal_spec(kinds), min_size=d, max_size=d))
        return {
            'corr': corr,
            'marginals': margs,
            'n': draw(st.integers(nmin, nmax)),
            'seed': draw(SEEDS),
            # up to two constant columns (never all columns)
            'constant_cols': draw(st.lists(st.integers(0, d - 1), max_size=min(2, d - 1) if constant else 0, unique=True))
            if constant else [],
            'names': draw(st.sampled_from(['str', 'int', 'mixed', 'rev'])),
            # row labels of the training table: they carry no information for any model
            'index': draw(st.sampled_from(['default', 'default', 'default', 'offset', 'shuffled', 'string', 'duplicated'])),
        }

    return specs()


def column_names(style, d):
    if style == 'str':
        return ['c%d' % i for i in range(d)]
    if style == 'int':
        return list(range(d))
    if style == 'rev':
        return ['z%d' % (d - i) for i in range(d)]
    return [('k%d' % i) if i % 2 else i for i in range(d)]


def build_table(spec):
    """Return (DataFrame, true correlation).  Gaussian copula with the generated marginals."""
    import pandas as pd
    from scipy import stats

    S = build_correlation(spec['corr'])
    d = S.shape[0]
    rs = np.random.RandomState(spec['seed'])
    Z = rs.normal(size=(spec['n'], d))
    if _pd(S):
        Z = Z @ np.linalg.cholesky(S).T
    U = stats.norm.cdf(Z).clip(1e-12, 1 - 1e-12)
    cols = {}
    names = column_names(spec['names'], d)
    for j in range(d):
        x = marginal_ppf(spec['marginals'][j], U[:, j])
        if j in spec.get('constant_cols', []):
            x = np.full(spec['n'], float(x[0]))
        cols[names[j]] = x
    df = pd.DataFrame(cols)
    style = spec.get('index', 'default')
    n = spec['n']
    if style == 'offset':
        df.index = pd.RangeIndex(1000, 1000 + n)
    elif style == 'shuffled':
        df.index = pd.Index(np.random.RandomState(spec['seed'] + 1).permutation(n))
    elif style == 'string':
        df.index = pd.Index(['r%d' % i for i in range(n)], dtype=object)
    elif style == 'duplicated':
        df.index = pd.Index(np.arange(n) // 2)
    return df, S


def _pd(S):
    try:
        np.linalg.cholesky(S)
        return True
    except np.linalg.LinAlgError:
        return False
