"""Independent references for the Clayton / Frank / Gumbel copulas.

* 50-digit mpmath closed forms (Nelsen, "An Introduction to Copulas", table 4.1) for C, and
  numerical differentiation (mpmath.diff, 40+ digits) of that reference for h = dC/dv and
  c = d2C/du dv -- so neither shares a formula with the code under test.
* float64 closed forms for h, its inverse (used by the reference sampler) and Kendall's tau.
"""

import math

import mpmath as mp
import numpy as np
from scipy import integrate

mp.mp.dps = 50

FAMILIES = ('clayton', 'frank', 'gumbel')


def cdf_mp(family, theta, u, v):
    u, v, th = mp.mpf(u), mp.mpf(v), mp.mpf(theta)
    if u <= 0 or v <= 0:
        return mp.mpf(0)
    if u >= 1:
        return v
    if v >= 1:
        return u
    if family == 'clayton':
        return (u ** (-th) + v ** (-th) - 1) ** (-1 / th)
    if family == 'frank':
        return -mp.log1p(mp.expm1(-th * u) * mp.expm1(-th * v) / mp.expm1(-th)) / th
    if family == 'gumbel':
        return mp.exp(-(((-mp.log(u)) ** th + (-mp.log(v)) ** th) ** (1 / th)))
    raise ValueError(family)


def cdf_ref(family, theta, U, V):
    return np.array([float(cdf_mp(family, theta, u, v)) for u, v in zip(U, V)])


def h_mp(family, theta, u, v):
    """dC/dv at an interior point, by high-precision numerical differentiation of cdf_mp."""
    return mp.diff(lambda t: cdf_mp(family, theta, u, t), mp.mpf(v))


def pdf_mp(family, theta, u, v):
    return mp.diff(lambda s, t: cdf_mp(family, theta, s, t), (mp.mpf(u), mp.mpf(v)), (1, 1))


def h_ref(family, theta, U, V):
    return np.array([float(h_mp(family, theta, u, v)) for u, v in zip(U, V)])


def pdf_ref(family, theta, U, V):
    return np.array([float(pdf_mp(family, theta, u, v)) for u, v in zip(U, V)])


def generator_mp(family, theta, t):
    t, th = mp.mpf(t), mp.mpf(theta)
    if family == 'clayton':
        return (t ** (-th) - 1) / th
    if family == 'frank':
        return -mp.log(mp.expm1(-th * t) / mp.expm1(-th))
    if family == 'gumbel':
        return (-mp.log(t)) ** th
    raise ValueError(family)


# ---- float64 closed forms (own derivation) -----------------------------------------------------

def h_f64(family, theta, u, v):
    """h(u|v) = dC/dv in float64 (vectorised), for interior points."""
    u = np.asarray(u, dtype=float)
    v = np.asarray(v, dtype=float)
    th = float(theta)
    if family == 'clayton':
        return v ** (-th - 1) * (u ** (-th) + v ** (-th) - 1) ** (-1 / th - 1)
    if family == 'frank':
        eu, ev, e1 = np.expm1(-th * u), np.expm1(-th * v), math.expm1(-th)
        return eu * (ev + 1) / (e1 + eu * ev)
    if family == 'gumbel':
        if th == 1:
            return u * np.ones_like(v)
        a, b = (-np.log(u)) ** th, (-np.log(v)) ** th
        s = a + b
        C = np.exp(-s ** (1 / th))
        return C * s ** (1 / th - 1) * (-np.log(v)) ** (th - 1) / v
    raise ValueError(family)


def h_inv_f64(family, theta, y, v, iters=80):
    """u with h(u|v) = y; Clayton and Frank in closed form, Gumbel by vectorised bisection."""
    y = np.asarray(y, dtype=float)
    v = np.asarray(v, dtype=float)
    th = float(theta)
    if family == 'clayton':
        return ((y ** (-th / (1 + th)) - 1) * v ** (-th) + 1) ** (-1 / th)
    if family == 'frank':
        # y = eu (ev+1) / (e1 + eu ev)  =>  eu = y e1 / (ev + 1 - y ev)
        ev, e1 = np.expm1(-th * v), math.expm1(-th)
        eu = y * e1 / (ev + 1 - y * ev)
        return -np.log1p(eu) / th
    lo = np.full(y.shape, 1e-300)
    hi = np.ones(y.shape)
    for _ in range(iters):
        mid = 0.5 * (lo + hi)
        val = h_f64(family, th, mid, v)
        low = val < y
        lo = np.where(low, mid, lo)
        hi = np.where(low, hi, mid)
    return 0.5 * (lo + hi)


def sample_ref(family, theta, n, rs):
    """Reference sampler (conditional inversion), independent of the library's sampler."""
    v = rs.uniform(size=n)
    y = rs.uniform(size=n)
    u = h_inv_f64(family, theta, y, v)
    return np.column_stack((u, v))


def debye1(x):
    if x == 0:
        return 1.0
    def integrand(t):
        if t == 0:
            return 1.0
        if t > 30:
            return t * math.exp(-t) / (1 - math.exp(-t))
        return t / math.expm1(t)

    if x > 0:
        # integrate the bulk on [0, min(x, 60)] (beyond that the integrand is < 1e-24)
        val = integrate.quad(integrand, 0, min(x, 60.0), epsabs=1e-14, epsrel=1e-13, limit=200)[0]
    else:
        val = integrate.quad(integrand, 0, x, epsabs=1e-14, epsrel=1e-13, limit=200)[0]
    return val / x


def tau_theory(family, theta):
    th = float(theta)
    if family == 'clayton':
        return th / (th + 2)
    if family == 'gumbel':
        return 1 - 1 / th
    if family == 'frank':
        if abs(th) < 0.01:
            return th / 9.0 - th ** 3 / 900.0 + th ** 5 / 52920.0
        return 1 - 4 / th * (1 - debye1(th))
    raise ValueError(family)


def theta_from_tau(family, tau):
    if family == 'clayton':
        return 2 * tau / (1 - tau)
    if family == 'gumbel':
        return 1 / (1 - tau)
    if family == 'frank':
        from scipy.optimize import brentq

        if abs(tau) < 1e-6:
            return 9.0 * tau
        sign = 1 if tau > 0 else -1
        return sign * brentq(lambda t: tau_theory('frank', t) - abs(tau), 1e-9, 800.0, xtol=1e-13)
    raise ValueError(family)
