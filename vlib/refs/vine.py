"""Independent structural validator for regular vines, working on VineCopula.to_dict() only,
plus reference helpers (Kruskal maximum spanning weight, Kendall tau matrix)."""

import itertools

import numpy as np
from scipy import stats


class Invalid(Exception):
    pass


def edge_key(e):
    return (int(e['L']), int(e['R']), frozenset(int(x) for x in (e['D'] or ())))


def full_set(e):
    return {int(e['L']), int(e['R'])} | {int(x) for x in (e['D'] or ())}


def is_spanning_tree(n_nodes, pairs):
    """pairs: list of (i, j) over nodes 0..n_nodes-1."""
    if len(pairs) != n_nodes - 1:
        return False
    parent = list(range(n_nodes))

    def find(a):
        while parent[a] != a:
            parent[a] = parent[parent[a]]
            a = parent[a]
        return a

    for i, j in pairs:
        if i == j or not (0 <= i < n_nodes and 0 <= j < n_nodes):
            return False
        ri, rj = find(i), find(j)
        if ri == rj:
            return False
        parent[ri] = rj
    return True


def degrees(n_nodes, pairs):
    deg = [0] * n_nodes
    for i, j in pairs:
        deg[i] += 1
        deg[j] += 1
    return deg


def validate(vd, d, truncated, vine_type):
    """vd = VineCopula.to_dict() of a fitted vine.  Raises Invalid(message).  Returns summary dict."""
    trees = vd['trees']
    want_trees = max(1, min(d - 1, truncated))
    if len(trees) != want_trees:
        raise Invalid('%d trees for d=%d, truncation=%d (expected %d)' % (len(trees), d, truncated, want_trees))
    seen_pairs = set()
    prev_keys = None
    for k, tree in enumerate(trees, start=1):
        edges = tree['edges']
        if len(edges) != d - k:
            raise Invalid('tree %d has %d edges, expected %d' % (k, len(edges), d - k))
        keys = [edge_key(e) for e in edges]
        if len(set(keys)) != len(keys):
            raise Invalid('tree %d contains the same edge twice: %r' % (k, keys))
        pairs = []
        for e in edges:
            L, R = int(e['L']), int(e['R'])
            D = {int(x) for x in (e['D'] or ())}
            if L == R:
                raise Invalid('tree %d: edge with L == R == %d' % (k, L))
            if not (0 <= L < d and 0 <= R < d) or not all(0 <= x < d for x in D):
                raise Invalid('tree %d: variable index out of range in edge %r' % (k, edge_key(e)))
            if L in D or R in D:
                raise Invalid('tree %d: conditioned variable inside the conditioning set: %r' % (k, edge_key(e)))
            if len(D) != k - 1:
                raise Invalid('tree %d: conditioning set %r has %d variables, expected %d' % (k, sorted(D), len(D), k - 1))
            pair = frozenset((L, R))
            if pair in seen_pairs:
                raise Invalid('pair %r is conditioned twice in the vine' % (sorted(pair),))
            seen_pairs.add(pair)
            if k == 1:
                if e.get('parents'):
                    raise Invalid('tree 1 edge with parents')
                pairs.append((L, R))
            else:
                parents = e.get('parents') or []
                if len(parents) != 2:
                    raise Invalid('tree %d: edge %r has %d parents' % (k, edge_key(e), len(parents)))
                pk = [edge_key(p) for p in parents]
                if pk[0] == pk[1]:
                    raise Invalid('tree %d: edge %r joins an edge with itself' % (k, edge_key(e)))
                for key in pk:
                    if key not in prev_keys:
                        raise Invalid('tree %d: parent %r of edge %r is not an edge of tree %d' % (k, key, edge_key(e), k - 1))
                A, B = full_set(parents[0]), full_set(parents[1])
                if len(A & B) != k - 1:
                    raise Invalid('tree %d: parents %r and %r do not satisfy proximity (share %d variables, need %d)'
                                  % (k, pk[0], pk[1], len(A & B), k - 1))
                if D != (A & B):
                    raise Invalid('tree %d: conditioning set %r is not the intersection %r of the parents' % (k, sorted(D), sorted(A & B)))
                if {L, R} != (A ^ B):
                    raise Invalid('tree %d: conditioned pair {%d,%d} is not the symmetric difference %r of the parents' % (k, L, R, sorted(A ^ B)))
                pairs.append((prev_keys[pk[0]], prev_keys[pk[1]]))
        n_nodes = d - k + 1
        if not is_spanning_tree(n_nodes, pairs):
            raise Invalid('tree %d: edges %r do not form a spanning tree on %d nodes' % (k, pairs, n_nodes))
        deg = degrees(n_nodes, pairs)
        if vine_type == 'center' and len(pairs) >= 1 and max(deg) != len(pairs):
            raise Invalid('center vine: tree %d is not a star (degrees %r)' % (k, deg))
        if vine_type == 'direct' and max(deg) > 2:
            raise Invalid('direct vine: tree %d is not a path (degrees %r)' % (k, deg))
        prev_keys = {key: i for i, key in enumerate(keys)}
    return {'trees': len(trees), 'pairs': len(seen_pairs)}


def kendall_matrix(X):
    d = X.shape[1]
    T = np.eye(d)
    for i in range(d):
        for j in range(i + 1, d):
            t = stats.kendalltau(X[:, i], X[:, j])[0]
            T[i, j] = T[j, i] = t
    return T


def max_spanning_weight(W):
    """Kruskal on a dense symmetric weight matrix; returns the total weight of a maximum spanning tree."""
    d = W.shape[0]
    edges = sorted(((W[i, j], i, j) for i in range(d) for j in range(i + 1, d)), reverse=True)
    parent = list(range(d))

    def find(a):
        while parent[a] != a:
            parent[a] = parent[parent[a]]
            a = parent[a]
        return a

    total, used = 0.0, 0
    for w, i, j in edges:
        ri, rj = find(i), find(j)
        if ri != rj:
            parent[ri] = rj
            total += w
            used += 1
            if used == d - 1:
                break
    return total
