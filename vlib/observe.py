"""Canonical observable behaviour of a model: class, to_dict(), probe queries, seeded sample streams.

`observe(model, probes)` returns a nested structure of plain Python / numpy values;
`first_difference(a, b)` returns None when two observations are identical (NaN == NaN,
arrays compared exactly unless rtol is given) or a short description of the first difference.
"""

import numpy as np


def normalise(x):
    """Make dict/list/set/numpy/pandas/Enum content comparable."""
    import enum

    import pandas as pd

    if isinstance(x, dict):
        return {str(k): normalise(v) for k, v in x.items()}
    if isinstance(x, (set, frozenset)):
        return ['<set>'] + sorted(normalise(v) for v in x)
    if isinstance(x, (list, tuple)):
        return [normalise(v) for v in x]
    if isinstance(x, enum.Enum):
        return '<enum %s>' % x.name
    if isinstance(x, pd.DataFrame):
        return {'<frame>': [str(c) for c in x.columns], 'values': normalise(x.to_numpy())}
    if isinstance(x, (pd.Series, pd.Index)):
        return normalise(x.to_numpy())
    if isinstance(x, np.ndarray):
        if x.dtype == object:
            return [normalise(v) for v in x.tolist()]
        return x.astype(float) if x.dtype.kind in 'iub' else x
    if isinstance(x, (np.floating, float)):
        return float(x)
    if isinstance(x, (np.integer, int)) and not isinstance(x, bool):
        return float(x)
    if isinstance(x, np.bool_):
        return bool(x)
    return x


def first_difference(a, b, path='', rtol=0.0, atol=0.0):
    if isinstance(a, dict) and isinstance(b, dict):
        if list(a.keys()) != list(b.keys()) and set(a.keys()) != set(b.keys()):
            return '%s: keys %r vs %r' % (path, sorted(a.keys()), sorted(b.keys()))
        for k in a:
            d = first_difference(a[k], b[k], path + '/' + str(k), rtol, atol)
            if d:
                return d
        return None
    if isinstance(a, np.ndarray) or isinstance(b, np.ndarray):
        try:
            a2, b2 = np.asarray(a, dtype=float), np.asarray(b, dtype=float)
        except (TypeError, ValueError):
            return '%s: %r vs %r' % (path, a, b)
        if a2.shape != b2.shape:
            return '%s: shape %s vs %s' % (path, a2.shape, b2.shape)
        same = (a2 == b2) | (np.isnan(a2) & np.isnan(b2))
        if rtol or atol:
            with np.errstate(invalid='ignore'):
                same = same | (np.abs(a2 - b2) <= atol + rtol * np.maximum(np.abs(a2), np.abs(b2)))
        if not same.all():
            idx = tuple(int(i[0]) for i in np.nonzero(~same)) if a2.ndim else ()
            return '%s%r: %r vs %r' % (path, list(idx), a2[idx] if a2.ndim else float(a2), b2[idx] if b2.ndim else float(b2))
        return None
    if isinstance(a, list) and isinstance(b, list):
        if len(a) != len(b):
            return '%s: length %d vs %d' % (path, len(a), len(b))
        # numeric lists: compare as arrays
        if a and all(isinstance(v, float) for v in a) and all(isinstance(v, float) for v in b):
            return first_difference(np.array(a), np.array(b), path, rtol, atol)
        for i, (x, y) in enumerate(zip(a, b)):
            d = first_difference(x, y, '%s[%d]' % (path, i), rtol, atol)
            if d:
                return d
        return None
    if isinstance(a, float) and isinstance(b, float):
        if a == b or (np.isnan(a) and np.isnan(b)):
            return None
        if (rtol or atol) and abs(a - b) <= atol + rtol * max(abs(a), abs(b)):
            return None
        return '%s: %r vs %r' % (path, a, b)
    if type(a) != type(b) or a != b:
        return '%s: %r vs %r' % (path, a, b)
    return None


def _try(fn, *args, **kwargs):
    """Value, or a marker naming the exception type (part of the observable behaviour)."""
    try:
        return normalise(fn(*args, **kwargs))
    except Exception as e:  # noqa
        return '<raises %s>' % type(e).__name__


def kind_of(model):
    from copulas.bivariate.base import Bivariate
    from copulas.multivariate import GaussianMultivariate, VineCopula
    from copulas.univariate import Univariate

    if isinstance(model, VineCopula):
        return 'vine'
    if isinstance(model, GaussianMultivariate):
        return 'gaussian'
    if isinstance(model, Bivariate):
        return 'bivariate'
    if isinstance(model, Univariate):
        return 'univariate'
    return type(model).__name__


def family(model):
    if kind_of(model) == 'univariate' and type(model).__name__ == 'Univariate':
        inst = getattr(model, '_instance', None)
        return type(inst).__name__ if inst is not None else 'Univariate'
    return type(model).__name__


def sample_streams(model, seed, n=7, calls=3, **kwargs):
    """Three successive seeded sample() calls (restores the model's previous random state object afterwards is
    not attempted: observation re-seeds the model, callers compare like with like)."""
    out = []
    try:
        model.set_random_state(seed)
    except Exception as e:  # noqa
        return '<set_random_state raises %s>' % type(e).__name__
    for _ in range(calls):
        out.append(_try(model.sample, n, **kwargs))
    return out


def observe(model, probes, seed=1234, samples=True):
    """probes: dict with the inputs appropriate for the model kind (see checks/c14.py: make_probes)."""
    k = kind_of(model)
    obs = {'family': family(model), 'to_dict': _try(model.to_dict)}
    if k == 'univariate':
        x, q = np.asarray(probes['x'], dtype=float), np.asarray(probes['q'], dtype=float)
        obs['cdf'] = _try(model.cdf, x.copy())
        obs['pdf'] = _try(model.pdf, x.copy())
        obs['logpdf'] = _try(model.log_probability_density, x.copy())
        obs['ppf'] = _try(model.ppf, q.copy())
    elif k == 'bivariate':
        X = np.asarray(probes['X'], dtype=float)
        obs['cdf'] = _try(model.cdf, X.copy())
        obs['pdf'] = _try(model.pdf, X.copy())
        obs['h'] = _try(model.partial_derivative, X.copy())
        obs['ppf'] = _try(model.ppf, X[:, 0].copy(), X[:, 1].copy())
    elif k == 'gaussian':
        import pandas as pd

        rows = np.asarray(probes['rows'], dtype=float)
        cols = getattr(model, 'columns', None)
        frame = pd.DataFrame(rows, columns=cols) if cols is not None and len(cols) == rows.shape[1] else rows
        obs['pdf'] = _try(model.pdf, frame)
        # the CDF is not observed here: scipy's MVN integrator is randomised for d >= 3 (C13 checks it with a tolerance)
        obs['correlation'] = _try(lambda: model.correlation)
        if samples and cols is not None and len(cols) == rows.shape[1] and len(cols) >= 2:
            def cond_sample():
                model.set_random_state(seed)
                return model.sample(3, conditions={cols[-1]: float(rows[0, -1])})
            obs['conditional_sample'] = _try(cond_sample)
    elif k == 'vine':
        u = np.asarray(probes['u'], dtype=float)[None, :]
        obs['likelihood'] = _try(model.get_likelihood, u.copy())
    if samples:
        obs['samples'] = sample_streams(model, seed, n=probes.get('n_sample', 5))
    return obs
